"""C02 — only the owner or the designated authority moves funds or changes privileged state.
Model coq/theories/Ledger vs crates/astria-sequencer checked_actions/*.  The monitor is the
observational oracle of the property: who lost funds / which privileged field changed vs. who
signed, over the state dumps around every transaction and every block."""
from ledger_common import NACC, LedgerCheck

ASSETS = range(4)
ACCTS = ["a%d" % n for n in range(NACC)]


def chain_priv(d):
    """chain-wide privileged state of a dump -> {field: value}"""
    return {
        "sudo": d.sudo,
        "ibcsudo": d.ibcsudo,
        "relayers": frozenset(d.relayers),
        "fees": tuple(sorted((k, v) for k, v in d.fee.items())),
        "feeassets": frozenset(d.feeassets),
        "validators": (tuple(sorted(d.validators.items())), d.valcount),
    }


# which authority must have signed for a field to change (the design of the code: the sudo
# address holds the privilege to name the IBC sudo; the IBC sudo names the relayers)
HOLDER = {"sudo": "sudo", "ibcsudo": "sudo", "fees": "sudo", "feeassets": "sudo", "validators": "sudo", "relayers": "ibcsudo"}


class C02(LedgerCheck):
    pid = "C02"
    focus = "c02"
    n_quick = 110
    n_thorough = 2000
    rule = ("seeded histories as for C03 with the weights shifted to authority-bound actions: unlock / bridge transfer / ICS-20 "
            "withdrawal from bridge accounts signed by the withdrawer, a former withdrawer, the bridge sudo, the bridge account itself or "
            "a stranger; plain transfer / lock / ICS-20 withdrawal signed by a bridge account; sudo, ibc-sudo, relayer, fee, fee-asset, "
            "validator changes signed by the current holder, a former holder (after a sudo change in the same or an earlier block) or a "
            "stranger; init bridge / bridge sudo change (new sudo, new withdrawer, deposit switch before and after Blackburn). "
            "non-trivial = >= 3 transactions took effect and >= 1 failed; distinct = distinct script text")
    assumptions = LedgerCheck.assumptions + [
        "oracle markets / currency pairs (price-feed admin actions) and the IBC relay action are not generated; the validator set is "
        "observed as the stored validators + count (post-Aspen)",
        "`authority that holds the privilege` is read as in the code: sudo address for sudo / ibc sudo / fees / fee assets / validators, "
        "ibc sudo address for the relayer set, bridge sudo for the bridge's sudo / withdrawer / deposit switch, the account itself for "
        "turning itself into a bridge account",
    ]

    def check(self, tr):
        fails = []
        ev = tr.events
        for i, e in enumerate(ev):
            if e["k"] == "exec" and e["status"] == "ok" and e["tx"] is not None:
                pre, post = tr.dump_before(i), tr.dump_after(i)
                if pre is None or post is None:
                    continue
                signer, tid = e["tx"]["signer"], e["id"]
                for acc in ACCTS:
                    for k in ASSETS:
                        if post.b(acc, k) < pre.b(acc, k) and acc != signer:
                            br = pre.bridge.get(acc)
                            if br is None or br["withdrawer"] != signer:
                                fails.append("debit: tx %s signed by %s decreased %s's s%d balance from %d to %d (%s)"
                                             % (tid, signer, acc, k, pre.b(acc, k), post.b(acc, k),
                                                "bridge account, withdrawer %s" % br["withdrawer"] if br else "not a bridge account"))
                p0, p1 = chain_priv(pre), chain_priv(post)
                for f in p0:
                    if p0[f] != p1[f]:
                        holder = pre.sudo if HOLDER[f] == "sudo" else pre.ibcsudo
                        if signer != holder:
                            fails.append("privilege: tx %s signed by %s changed %s while the %s address was %s"
                                         % (tid, signer, f, HOLDER[f], holder))
                for acc in ACCTS:
                    b0, b1 = pre.bridge_priv(acc), post.bridge_priv(acc)
                    if b0 != b1:
                        if b0 is None:
                            if signer != acc:
                                fails.append("privilege: tx %s signed by %s turned %s into a bridge account" % (tid, signer, acc))
                        elif pre.bridge[acc]["sudo"] != signer:
                            fails.append("privilege: tx %s signed by %s changed bridge %s (%s -> %s) whose sudo is %s"
                                         % (tid, signer, acc, b0, b1, pre.bridge[acc]["sudo"]))
            elif e["k"] == "exec" and e["status"] in ("err", "constructerr", "unknown"):
                pre, post = tr.dump_before(i), tr.dump_after(i)
                if pre is None or post is None or e.get("cls") == "noblock":
                    continue
                if chain_priv(pre) != chain_priv(post) or pre.bridge != post.bridge or pre.bal != post.bal:
                    fails.append("a transaction that did not take effect (%s) changed balances or privileged state" % e["line"])
            elif e["k"] in ("begin", "end"):
                # block boundaries: no debit, no privileged write (end credits the fee recipient only)
                pre = tr.dump_before(i) if e["k"] == "begin" else self.last_dump(tr, i)
                post = tr.dump_after(i)
                if pre is None or post is None or not e["ok"]:
                    continue
                for acc in ACCTS:
                    for k in ASSETS:
                        if post.b(acc, k) < pre.b(acc, k):
                            fails.append("debit: `%s` decreased %s's s%d balance" % (e["k"], acc, k))
                if chain_priv(pre) != chain_priv(post) or {a: pre.bridge_priv(a) for a in ACCTS} != {a: post.bridge_priv(a) for a in ACCTS}:
                    fails.append("privilege: `%s` changed privileged state" % e["k"])
            elif e["k"] == "block" and e["ok"]:
                pre, post = tr.dump_before(i), tr.dump_after(i)
                if pre is None or post is None:
                    continue
                okt = [tx for _, st, x, tx in e["results"] if st == "code" and x == "0" and tx is not None]
                signers = {tx["signer"] for tx in okt}
                # authorities that held a privilege at some point during the block
                sudos, ibcsudos = {pre.sudo}, {pre.ibcsudo}
                withdrawers = {a: {pre.bridge[a]["withdrawer"]} for a in pre.bridge}
                bsudos = {a: {pre.bridge[a]["sudo"]} for a in pre.bridge}
                for tx in okt:
                    for a in tx["actions"]:
                        if a["name"] == "sudochange":
                            sudos.add(a["to"])
                        elif a["name"] == "ibcsudo":
                            ibcsudos.add(a["to"])
                        elif a["name"] == "initbridge":
                            s = tx["signer"]
                            withdrawers.setdefault(s, set()).add(s if a.get("withdrawer", "-") == "-" else a["withdrawer"])
                            bsudos.setdefault(s, set()).add(s if a.get("sudo", "-") == "-" else a["sudo"])
                        elif a["name"] == "bsudo":
                            if a.get("newwithdrawer", "-") != "-":
                                withdrawers.setdefault(a["bridge"], set()).add(a["newwithdrawer"])
                            if a.get("newsudo", "-") != "-":
                                bsudos.setdefault(a["bridge"], set()).add(a["newsudo"])
                for acc in ACCTS:
                    for k in ASSETS:
                        if post.b(acc, k) < pre.b(acc, k) and acc not in signers:
                            if not (withdrawers.get(acc, set()) & signers):
                                fails.append("debit: block decreased %s's s%d balance from %d to %d; transactions that took effect were signed by %s, "
                                             "its withdrawers during the block were %s"
                                             % (acc, k, pre.b(acc, k), post.b(acc, k), sorted(signers), sorted(withdrawers.get(acc, []))))
                p0, p1 = chain_priv(pre), chain_priv(post)
                for f in p0:
                    if p0[f] != p1[f]:
                        holders = sudos if HOLDER[f] == "sudo" else ibcsudos
                        if not (holders & signers):
                            fails.append("privilege: block changed %s; signers %s, holders of the %s privilege during the block %s"
                                         % (f, sorted(signers), HOLDER[f], sorted(holders)))
                for acc in ACCTS:
                    b0, b1 = pre.bridge_priv(acc), post.bridge_priv(acc)
                    if b0 != b1:
                        allowed = bsudos.get(acc, set()) | ({acc} if b0 is None else set())
                        if not (allowed & signers):
                            fails.append("privilege: block changed bridge %s (%s -> %s); signers %s, allowed %s"
                                         % (acc, b0, b1, sorted(signers), sorted(allowed)))
        return fails

    @staticmethod
    def last_dump(tr, end_idx):
        j = end_idx - 1
        while j >= 0 and tr.events[j]["k"] in ("deposits", "txdef"):
            j -= 1
        return tr.events[j]["d"] if j >= 0 and tr.events[j]["k"] == "dump" else None


CHECK = C02()
