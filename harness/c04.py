"""C04 — bridge solvency: deposits are backed, withdrawals are paid at most once.
Model coq/theories/Ledger vs crates/astria-sequencer (checked_actions/bridge/*, ics20_withdrawal.rs,
bridge/state_ext.rs).  Transaction-level part of the property: deposits published by BridgeLock /
BridgeTransfer and event ids carried by BridgeUnlock / BridgeTransfer / Ics20Withdrawal from a
bridge account.  Incoming ICS-20 packets (deposits / refunds to bridge accounts) belong to C18."""
import re

from ledger_common import NACC, LedgerCheck, action_flows, asset_index, carried_event

ACCTS = ["a%d" % n for n in range(NACC)]


def dep_key(d):
    return (d["rollup"], d["bridge"], d["asset"], d["amount"], d["dest"], d["srctx"], d["idx"])


class C04(LedgerCheck):
    pid = "C04"
    focus = "c04"
    n_quick = 110
    n_thorough = 2000
    rule = ("seeded histories as for C03 with the weights shifted to bridge traffic: locks to bridge / non-bridge / disabled accounts in "
            "the bridge's or another asset (also in ibc/<hash> form), unlocks, bridge-to-bridge transfers (same / different asset, to "
            "itself), ICS-20 withdrawals from bridge accounts with and without rollup memo, event ids fresh / reused across action "
            "types, blocks and inside one bundle / empty / 257 bytes, block numbers 0, bundles failing after a lock has cached its deposit; "
            "after every transaction the cached deposits are listed in full, after every block the deposits stored for the block. "
            "non-trivial = >= 3 transactions took effect and >= 1 failed; distinct = distinct script text")
    assumptions = LedgerCheck.assumptions + [
        "incoming ICS-20 packets (receive / refund to a bridge account) are C18's: here every Deposit stems from a BridgeLock or "
        "BridgeTransfer action, and event ids are carried by BridgeUnlock, BridgeTransfer and Ics20Withdrawal-with-bridge-address",
        "`published` = cached in the block's deposit cache + `tx.deposit` ABCI event (per transaction) and stored with the block "
        "(StateReadExt::get_deposits for the block hash) - the SequencerBlock the rollups read is built from exactly that cache",
    ]

    def check_deposit(self, d, tx, pre, fails, where):
        """a published deposit must stem from a lock / bridge transfer action of the tx it names"""
        if tx is None or d["srctx"] != tx["id"]:
            fails.append("deposit: %s: deposit names tx %s" % (where, d["srctx"]))
            return
        if d["idx"] >= len(tx["actions"]):
            fails.append("deposit: %s: action index %d outside tx %s" % (where, d["idx"], tx["id"]))
            return
        a = tx["actions"][d["idx"]]
        if a["name"] not in ("lock", "btransfer") or a["to"] != d["bridge"] or int(a["amt"]) != d["amount"]:
            fails.append("deposit: %s: %s does not match action %d of tx %s (%s)" % (where, dep_key(d), d["idx"], tx["id"], a))
            return
        if pre is not None:
            br = pre.bridge.get(d["bridge"])
            if br is None:
                fails.append("deposit: %s: %s is not a bridge account" % (where, d["bridge"]))
            elif br["asset"] != d["asset"] or br["rollup"] != d["rollup"]:
                fails.append("deposit: %s: deposit says asset %s rollup %s, bridge %s has asset %s rollup %s"
                             % (where, d["asset"], d["rollup"], d["bridge"], br["asset"], br["rollup"]))

    def check(self, tr):
        fails = []
        ev = tr.events
        for i, e in enumerate(ev):
            if e["k"] == "exec" and e["status"] == "ok" and e["tx"] is not None:
                pre, post = tr.dump_before(i), tr.dump_after(i)
                tx, tid = e["tx"], e["id"]
                if e["depevents"] != len(e["deps"]):
                    fails.append("deposit: tx %s emitted %d tx.deposit events but cached %d deposits" % (tid, e["depevents"], len(e["deps"])))
                for d in e["deps"]:
                    self.check_deposit(d, tx, pre, fails, "tx %s" % tid)
                if pre is None or post is None:
                    continue
                # backing: every bridge account's balance in its asset moves by the published deposits to it plus the other
                # declared movements and fees of this transaction
                fee_of = {}
                for f in e["fees"]:
                    fee_of[f["asset_i"]] = fee_of.get(f["asset_i"], 0) + f["amount"]
                for b, br in pre.bridge.items():
                    if not re.fullmatch(r"s\d+", br["asset"]):
                        continue
                    k = asset_index(br["asset"])
                    want = sum(d["amount"] for d in e["deps"] if d["bridge"] == b)
                    for a in tx["actions"]:
                        fl = action_flows(a, tx["signer"], pre) or []
                        for frm, to, kk, amt in fl:
                            if kk != k:
                                continue
                            if frm == b:
                                want -= amt
                            if to == b and a["name"] not in ("lock", "btransfer"):
                                want += amt         # plain transfer to a bridge account: credit without deposit
                    if tx["signer"] == b:
                        want -= fee_of.get(k, 0)
                    got = post.b(b, k) - pre.b(b, k)
                    if got != want:
                        fails.append("backing: tx %s: bridge %s's s%d balance changed by %d; published deposits, withdrawals and fees account for %d"
                                     % (tid, b, k, got, want))
                # deposits counter of the dump grows by the published deposits
                for r in set(pre.deposits) | set(post.deposits) | {d["rollup"] for d in e["deps"]}:
                    if post.deposits.get(r, 0) - pre.deposits.get(r, 0) != sum(1 for d in e["deps"] if d["rollup"] == r):
                        fails.append("deposit: tx %s: cached deposits of %s went from %d to %d, the tx published %d"
                                     % (tid, r, pre.deposits.get(r, 0), post.deposits.get(r, 0), sum(1 for d in e["deps"] if d["rollup"] == r)))
                # event ids: used ones are recorded
                for a in tx["actions"]:
                    c = carried_event(a)
                    if c is not None:
                        if c in pre.wevent:
                            fails.append("event id: tx %s executed %s carrying %s which was already recorded" % (tid, a["name"], c))
                        if c not in post.wevent:
                            fails.append("event id: tx %s executed %s carrying %s but the id is not recorded" % (tid, a["name"], c))
            elif e["k"] == "exec" and e["status"] in ("err", "constructerr", "unknown"):
                pre, post = tr.dump_before(i), tr.dump_after(i)
                if pre is not None and post is not None and e.get("cls") != "noblock":
                    if pre.deposits != post.deposits:
                        fails.append("deposit: tx %s did not take effect but the cached deposits changed: %s -> %s"
                                     % (e["id"], pre.deposits, post.deposits))
                    if pre.wevent != post.wevent:
                        fails.append("event id: tx %s did not take effect but recorded event ids changed" % e["id"])
        # block level: what is stored with the block
        for kind, b, en, execs in tr.blocks():
            if kind == "manual":
                oktx = {ev[j]["id"]: ev[j]["tx"] for j in execs if ev[j]["status"] == "ok"}
                published = [dep_key(d) for j in execs if ev[j]["status"] == "ok" for d in ev[j]["deps"]]
                cached = next((ev[j] for j in range(en - 1, b, -1) if ev[j]["k"] == "deposits"), None)
                stored = next((ev[j] for j in range(en + 1, min(en + 3, len(ev))) if ev[j]["k"] == "bdeposits"), None)
                if cached is not None and sorted(dep_key(d) for d in cached["list"]) != sorted(published):
                    fails.append("deposit: the deposit cache at the end of the block differs from the deposits published by the "
                                 "transactions that took effect: %s vs %s" % (sorted(dep_key(d) for d in cached["list"]), sorted(published)))
                if stored is not None:
                    if sorted(dep_key(d) for d in stored["list"]) != sorted(published):
                        fails.append("deposit: the deposits stored with the block differ from the deposits published by the transactions "
                                     "that took effect: %s vs %s" % (sorted(dep_key(d) for d in stored["list"]), sorted(published)))
                    for d in stored["list"]:
                        if d["srctx"] not in oktx:
                            fails.append("deposit: block stores a deposit of tx %s which did not take effect" % d["srctx"])
            elif kind == "block":
                e = ev[b]
                oktx = {tid: tx for tid, st, x, tx in e["results"] if st == "code" and x == "0" and tx is not None}
                stored = next((ev[j] for j in range(b + 1, min(b + 3, len(ev))) if ev[j]["k"] == "bdeposits"), None)
                pre = tr.dump_before(b)
                if stored is not None:
                    for d in stored["list"]:
                        if d["srctx"] not in oktx:
                            fails.append("deposit: block stores a deposit of tx %s which did not take effect" % d["srctx"])
                        else:
                            self.check_deposit(d, oktx[d["srctx"]], None, fails, "block")
                    keys = [dep_key(d) for d in stored["list"]]
                    if len(keys) != len(set(keys)):
                        fails.append("deposit: block stores a deposit twice: %s" % keys)
                    # block-level backing for bridges touched only by locks in this block
                    post = tr.dump_after(b)
                    if pre is not None and post is not None:
                        for bacc, br in pre.bridge.items():
                            if not re.fullmatch(r"s\d+", br["asset"]):
                                continue
                            k = asset_index(br["asset"])
                            touched = False
                            for tx in oktx.values():
                                if tx["signer"] == bacc:
                                    touched = True
                                for a in tx["actions"]:
                                    if a["name"] in ("unlock", "btransfer", "ics20w") and a.get("bridge") == bacc:
                                        touched = True
                                    if a["name"] == "transfer" and a["to"] == bacc:
                                        touched = True
                                    if a["name"] == "sudochange" or bacc in (pre.sudo, post.sudo):
                                        touched = True      # fee recipient
                            if not touched:
                                want = sum(d["amount"] for d in stored["list"] if d["bridge"] == bacc)
                                got = post.b(bacc, k) - pre.b(bacc, k)
                                if got != want:
                                    fails.append("backing: block: bridge %s's s%d balance changed by %d, deposits stored for it sum to %d"
                                                 % (bacc, k, got, want))
        # event ids: at most once per (bridge, id) over the whole committed history, whichever action type
        seen = {}
        for tx in tr.successful_txs():
            for a in tx["actions"]:
                c = carried_event(a)
                if c is not None:
                    if c in seen:
                        fails.append("event id: %s honoured twice: %s in tx %s and %s in tx %s" % (c, seen[c][1], seen[c][0], a["name"], tx["id"]))
                    seen[c] = (tx["id"], a["name"])
        # recorded ids never disappear
        last = None
        for e in ev:
            if e["k"] == "dump":
                if last is not None:
                    for c in last.wevent:
                        if c not in e["d"].wevent and c[0] in e["d"].bridge:
                            pass        # an abandoned block may roll back; handled by the committed-history check above
                last = e["d"]
        return fails


CHECK = C04()
