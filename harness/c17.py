"""C17 — decoders of untrusted wire data (crates/astria-core) vs the validation layer model
(coq/theories/Decode).

Two passes through the in-crate harness `verif::drive` of astria-core:
  pass 1  `mk sb ...` / `mk tx ...`: the crate's own `ConfigureSequencerBlock` and signing code
          build valid values; the harness prints their raw protobuf structs as text dumps.
  pass 2  `w <kind> <z> <byte mutations> <dump>`: every input is (a structure-aware mutation of) a
          dump, computed HERE from the pass-1 output with a generator seeded by the case header,
          so implementation and model see identical explicit data.  The harness encodes the dump
          with prost (optionally brotli), applies the byte level mutations named in the script and
          decodes it exactly as the services do, under catch_unwind.
The model is run on the raw struct that the real prost decoder produced (the wire codecs are
sampled, not modelled); the answers of the codec / crypto primitives on the nested payloads
(`o=` facts) are inputs of the model, their composition and all length / presence / Merkle
checks are the model's own."""
import copy
import random
from collections import Counter

from common import CaseCheck, run_harness, run_model, split_cases

U64 = 2 ** 64 - 1
I64_MAX = 2 ** 63 - 1
BODY_URL = b"/astria.protocol.transaction.v1.TransactionBody"
KINDS = ("tx", "sb", "fb", "md", "rd", "mdl", "rdl")

# ----------------------------------------------------------------------------------- dumps

def p_proof(s):
    if s == "-":
        return None
    a, b, c = s.split(":")
    return {"path": bytes.fromhex(a), "idx": int(b), "size": int(c)}


def f_proof(p):
    return "-" if p is None else "%s:%d:%d" % (p["path"].hex(), p["idx"], p["size"])


def p_list(s):
    if s == "":
        return []
    parts = s.split(",")
    assert parts[-1] == ""
    return [bytes.fromhex(x) for x in parts[:-1]]


def f_list(l):
    return "".join(x.hex() + "," for x in l)


def p_opt(s):
    return None if s == "-" else bytes.fromhex(s)


def f_opt(b):
    return "-" if b is None else b.hex()


def p_hdr(s):
    if s == "-":
        return None
    cid, h, tm, rtr, dh, pa = s.split(":")
    t = None if tm == "-" else tuple(int(x) for x in tm.split("/"))
    return {"cid": bytes.fromhex(cid), "height": int(h), "time": t, "rtr": bytes.fromhex(rtr),
            "dh": bytes.fromhex(dh), "pa": bytes.fromhex(pa)}


def f_hdr(h):
    if h is None:
        return "-"
    tm = "-" if h["time"] is None else "%d/%d" % h["time"]
    return "%s:%d:%s:%s:%s:%s" % (h["cid"].hex(), h["height"], tm, h["rtr"].hex(), h["dh"].hex(), h["pa"].hex())


def p_eci(s):
    if s == "-":
        return None
    a, b = s.split(";")
    return {"bytes": bytes.fromhex(a), "proof": p_proof(b)}


def f_eci(e):
    return "-" if e is None else "%s;%s" % (e["bytes"].hex(), f_proof(e["proof"]))


def p_rt(s):
    a, b, c = s.split(";")
    return {"rid": p_opt(a), "txs": p_list(b), "proof": p_proof(c)}


def f_rt(r):
    return "%s;%s;%s" % (f_opt(r["rid"]), f_list(r["txs"]), f_proof(r["proof"]))


def kvs(toks):
    d = {}
    for t in toks:
        k, v = t.split("=", 1)
        d.setdefault(k, []).append(v)
    return d


def parse(kind, toks):
    """text dump -> python value (dict; for the list kinds a list of dicts)"""
    if kind in ("mdl", "rdl"):
        if toks in ([], ["-"]):
            return []
        out, cur = [], []
        for t in toks + ["|"]:
            if t == "|":
                out.append(parse(kind[:2], cur))
                cur = []
            else:
                cur.append(t)
        return out
    d = kvs(toks)
    one = lambda k: d[k][0]
    if kind == "tx":
        body = one("body")
        if body != "-":
            u, v = body.split(";")
            body = (bytes.fromhex(u), bytes.fromhex(v))
        else:
            body = None
        return {"sig": bytes.fromhex(one("sig")), "pk": bytes.fromhex(one("pk")), "body": body}
    if kind == "rd":
        return {"bh": bytes.fromhex(one("bh")), "rid": p_opt(one("rid")), "txs": p_list(one("txs")),
                "p": p_proof(one("p"))}
    v = {"bh": bytes.fromhex(one("bh")), "hdr": p_hdr(one("hdr")), "rtp": p_proof(one("rtp")),
         "rip": p_proof(one("rip")), "uch": p_list(one("uch")), "eci": p_eci(one("eci"))}
    if kind in ("sb", "fb"):
        v["rt"] = [p_rt(x) for x in d.get("rt", [])]
    if kind == "fb":
        v["all"] = p_list(one("all"))
    if kind == "md":
        v["ids"] = p_list(one("ids"))
    return v


def fmt(kind, v):
    if kind in ("mdl", "rdl"):
        return " | ".join(fmt(kind[:2], e) for e in v) if v else "-"
    if kind == "tx":
        body = "-" if v["body"] is None else "%s;%s" % (v["body"][0].hex(), v["body"][1].hex())
        return "sig=%s pk=%s body=%s" % (v["sig"].hex(), v["pk"].hex(), body)
    if kind == "rd":
        return "bh=%s rid=%s txs=%s p=%s" % (v["bh"].hex(), f_opt(v["rid"]), f_list(v["txs"]), f_proof(v["p"]))
    s = "bh=%s hdr=%s" % (v["bh"].hex(), f_hdr(v["hdr"]))
    if kind in ("sb", "fb"):
        for r in v["rt"]:
            s += " rt=" + f_rt(r)
    if kind == "md":
        s += " ids=" + f_list(v["ids"])
    s += " rtp=" + f_proof(v["rtp"])
    if kind == "fb":
        s += " all=" + f_list(v["all"])
    s += " rip=%s uch=%s eci=%s" % (f_proof(v["rip"]), f_list(v["uch"]), f_eci(v["eci"]))
    return s


# ----------------------------------------------------------------------------------- mutations

def flip(b, rng):
    if not b:
        return b"\x01"
    b = bytearray(b)
    k = rng.randrange(len(b) * 8)
    b[k // 8] ^= 1 << (k % 8)
    return bytes(b)


def bytes_muts(b, rng, want=32):
    """length changes and content changes of a bytes field"""
    out = [("empty", b""), ("short1", b[:-1]), ("long1", b + b"\x00"), ("flip", flip(b, rng)),
           ("len%d" % (want - 1), (b + bytes(64))[:want - 1]), ("len%d" % (want + 1), (b + bytes(64))[:want + 1]),
           ("len64", (b + bytes(64))[:64]), ("half", b[:len(b) // 2])]
    return [(n, x) for n, x in out if x != b]


def proof_muts(p, rng, other_root=None):
    """index / size / audit path edits of a raw merkle proof (None = the field is unset)"""
    out = [("none", None)]
    if p is None:
        return [("set", {"path": b"", "idx": 0, "size": 1}), ("set0", {"path": b"", "idx": 0, "size": 0})]
    path, idx, size = p["path"], p["idx"], p["size"]
    segs = [path[i:i + 32] for i in range(0, len(path), 32)]

    def mk(path=path, idx=idx, size=size):
        return {"path": path, "idx": idx, "size": size}
    for name, i in (("idx+1", idx + 1), ("idx-1", idx - 1), ("idx0", 0), ("idx=size", size), ("idx2^63", 2 ** 63),
                    ("idx2^63-1", 2 ** 63 - 1), ("idx2^64-1", U64), ("idx2^62", 2 ** 62),
                    ("idxrnd", rng.randrange(U64))):
        if 0 <= i <= U64 and i != idx:
            out.append((name, mk(idx=i)))
    for name, s in (("size0", 0), ("size+1", size + 1), ("size-1", size - 1), ("size+2", size + 2), ("size-2", size - 2),
                    ("size1", 1), ("size2^63", 2 ** 63), ("size2^64-1", U64), ("sizernd", rng.randrange(U64))):
        if 0 <= s <= U64 and s != size:
            out.append((name, mk(size=s)))
    out.append(("idxsize_big", mk(idx=2 ** 63 - 1, size=U64)))
    out.append(("idxsize_big2", mk(idx=2 ** 63, size=U64)))
    extra = other_root or bytes(rng.randrange(256) for _ in range(32))
    out.append(("path+seg", mk(path=path + extra)))
    out.append(("path+2seg", mk(path=path + extra + bytes(32))))
    out.append(("path+70seg", mk(path=path + bytes(32) * 70)))
    out.append(("path+1byte", mk(path=path + b"\x07")))
    out.append(("path+31byte", mk(path=path + bytes(31))))
    if segs:
        out.append(("path-seg", mk(path=b"".join(segs[:-1]))))
        out.append(("path-first", mk(path=b"".join(segs[1:]))))
        out.append(("path-5byte", mk(path=path[:-5])))
        out.append(("pathflip", mk(path=flip(path, rng))))
        out.append(("pathempty", mk(path=b"")))
        if len(segs) >= 2:
            out.append(("pathswap", mk(path=b"".join([segs[1], segs[0]] + segs[2:]))))
    return out


def hdr_muts(h, rng):
    out = [("none", None)]
    if h is None:
        return out

    def mk(**kw):
        x = dict(h)
        x.update(kw)
        return x
    out.append(("time_none", mk(time=None)))
    for name, t in (("secs_max+1", (253402300800, 0)), ("secs_min-1", (-62135596801, 0)), ("secs_max", (253402300799, 999999999)),
                    ("secs_min", (-62135596800, 0)), ("secs_i64max", (I64_MAX, 0)), ("secs_i64min", (-2 ** 63, 0)),
                    ("nanos-1", (h["time"][0] if h["time"] else 0, -1)), ("nanos1e9", (1, 10 ** 9)),
                    ("nanos_i32max", (1, 2 ** 31 - 1)), ("nanos_i32min", (1, -2 ** 31)), ("secs0", (0, 0))):
        if t != h["time"]:
            out.append(("time_" + name, mk(time=t)))
    for name, v in (("0", 0), ("2^63-1", I64_MAX), ("2^63", 2 ** 63), ("2^64-1", U64), ("+1", h["height"] + 1)):
        if v != h["height"] and v <= U64:
            out.append(("height_" + name, mk(height=v)))
    for name, c in (("empty", b""), ("51", b"x" * 51), ("50", b"y" * 50), ("space", b"te st"), ("utf8", "tést".encode()),
                    ("slash", b"a/b"), ("ok", b"A-z_0.9")):
        if c != h["cid"]:
            out.append(("cid_" + name, mk(cid=c)))
    for f, want in (("rtr", 32), ("dh", 32), ("pa", 20)):
        for name, b in bytes_muts(h[f], rng, want):
            out.append(("%s_%s" % (f, name), mk(**{f: b})))
    return out


def rt_muts(rts, rng, hdr):
    """edits of the repeated RollupTransactions field"""
    out = []
    root = hdr["rtr"] if hdr else None
    foreign = {"rid": bytes(rng.randrange(256) for _ in range(32)), "txs": [b"\x01\x02"],
               "proof": {"path": b"", "idx": 0, "size": 1}}
    out.append(("add_foreign", rts + [foreign]))
    out.append(("add_bad_proof", rts + [dict(foreign, proof={"path": b"", "idx": 2 ** 63, "size": 1})]))
    for i, r in enumerate(rts[:3]):
        def put(x, i=i):
            return rts[:i] + [x] + rts[i + 1:]
        out.append(("delete", rts[:i] + rts[i + 1:]))
        out.append(("dup", rts[:i + 1] + [r] + rts[i + 1:]))
        out.append(("dup_end_changed", rts + [dict(r, txs=r["txs"] + [b"zz"])]))
        out.append(("rid_none", put(dict(r, rid=None))))
        out.append(("proof_none", put(dict(r, proof=None))))
        if r["rid"] is not None:
            for name, b in bytes_muts(r["rid"], rng):
                out.append(("rid_" + name, put(dict(r, rid=b))))
        out.append(("tx_add", put(dict(r, txs=r["txs"] + [b"new tx"]))))
        out.append(("tx_add_empty", put(dict(r, txs=r["txs"] + [b""]))))
        if r["txs"]:
            out.append(("tx_drop", put(dict(r, txs=r["txs"][:-1]))))
            out.append(("tx_flip", put(dict(r, txs=[flip(r["txs"][0], rng)] + r["txs"][1:]))))
            out.append(("tx_swap", put(dict(r, txs=r["txs"][::-1]))) if len(r["txs"]) > 1 else ("tx_clear", put(dict(r, txs=[]))))
        for name, p in proof_muts(r["proof"], rng, root):
            out.append(("proof_" + name, put(dict(r, proof=p))))
    if len(rts) >= 2:
        out.append(("swap", [rts[1], rts[0]] + rts[2:]))
        out.append(("cross_proofs", [dict(rts[0], proof=rts[1]["proof"]), dict(rts[1], proof=rts[0]["proof"])] + rts[2:]))
    out.append(("clear", []))
    return out


def ids_muts(ids, rng):
    out = [("add", ids + [bytes(rng.randrange(256) for _ in range(32))]), ("add_short", ids + [b"\x01" * 31]),
           ("add_empty", ids + [b""])]
    if ids:
        out += [("drop", ids[:-1]), ("dup", ids + [ids[-1]]), ("flip", [flip(ids[0], rng)] + ids[1:]),
                ("clear", []), ("first_long", [ids[0] + b"\x00"] + ids[1:])]
        if len(ids) > 1:
            out.append(("swap", [ids[1], ids[0]] + ids[2:]))
    return out


def eci_muts(e, rng, hdr):
    if e is None:
        return [("set", {"bytes": b"", "proof": {"path": b"", "idx": 0, "size": 1}}),
                ("set_noproof", {"bytes": b"\x08\x01", "proof": None})]
    out = [("none", None), ("bytes_flip", dict(e, bytes=flip(e["bytes"], rng))),
           ("bytes_append", dict(e, bytes=e["bytes"] + b"\x08\x01")), ("bytes_garbage", dict(e, bytes=b"\xff\xff\xff"))]
    for name, p in proof_muts(e["proof"], rng, hdr["dh"] if hdr else None):
        out.append(("proof_" + name, dict(e, proof=p)))
    return out


def uch_muts(u, rng):
    out = [("add", u + [bytes(32)]), ("add_short", u + [bytes(31)]), ("add_long", u + [bytes(33)]), ("add_empty", u + [b""])]
    if u:
        out += [("drop", u[:-1]), ("flip", [flip(u[0], rng)] + u[1:]), ("first_short", [u[0][:-1]] + u[1:])]
    return out


def struct_muts(kind, v, rng):
    """(label, mutated value) for every structure-aware mutation of the raw struct `v`"""
    out = []

    def put(label, **kw):
        x = dict(v)
        x.update(kw)
        out.append((label, x))
    if kind == "tx":
        for name, b in bytes_muts(v["sig"], rng, 64):
            put("sig_" + name, sig=b)
        for name, b in bytes_muts(v["pk"], rng, 32):
            put("pk_" + name, pk=b)
        for _ in range(4):
            put("pk_flip", pk=flip(v["pk"], rng))
        put("pk_zero", pk=bytes(32))
        put("pk_ones", pk=b"\xff" * 32)
        put("body_none", body=None)
        if v["body"] is not None:
            u, val = v["body"]
            for name, x in (("empty", b""), ("slashx", b"/x"), ("noslash", u[1:]), ("other", b"/astria.protocol.transaction.v1.Transaction"),
                            ("upper", u.upper()),
                            # near misses of the expected type URL: a host in front of it, a longer or
                            # shorter path, a doubled slash (only the exact URL names the body type)
                            ("hosted", b"type.googleapis.com" + u), ("prefixed", b"x" + u), ("suffixed", u + b"x"),
                            ("dslash", b"/" + u), ("trunc", u[:-1]), ("nested", u + u)):
                put("url_" + name, body=(x, val))
            for name, b in bytes_muts(val, rng, 16):
                put("body_" + name, body=(u, b))
            for _ in range(4):
                put("body_flip", body=(u, flip(val, rng)))
            put("body_append", body=(u, val + b"\x0a\x00"))
            put("body_garbage", body=(u, bytes(rng.randrange(256) for _ in range(rng.randrange(1, 60)))))
        return out
    for name, b in bytes_muts(v["bh"], rng):
        put("bh_" + name, bh=b)
    if kind == "rd":
        put("rid_none", rid=None)
        if v["rid"] is not None:
            for name, b in bytes_muts(v["rid"], rng):
                put("rid_" + name, rid=b)
        put("tx_add", txs=v["txs"] + [b"x"])
        put("tx_clear", txs=[])
        for name, p in proof_muts(v["p"], rng):
            put("proof_" + name, p=p)
        return out
    for name, h in hdr_muts(v["hdr"], rng):
        put("hdr_" + name, hdr=h)
    for f in ("rtp", "rip"):
        for name, p in proof_muts(v[f], rng, v["hdr"]["dh"] if v["hdr"] else None):
            put("%s_%s" % (f, name), **{f: p})
    if v["rtp"] is not None and v["rip"] is not None:
        put("rtp_rip_swapped", rtp=v["rip"], rip=v["rtp"])
    for name, e in eci_muts(v["eci"], rng, v["hdr"]):
        put("eci_" + name, eci=e)
    for name, u in uch_muts(v["uch"], rng):
        put("uch_" + name, uch=u)
    if kind in ("sb", "fb"):
        for name, r in rt_muts(v["rt"], rng, v["hdr"]):
            put("rt_" + name, rt=r)
    if kind == "fb":
        for name, i in ids_muts(v["all"], rng):
            put("all_" + name, all=i)
    if kind == "md":
        for name, i in ids_muts(v["ids"], rng):
            put("ids_" + name, ids=i)
    return out


def byte_specs(n, rng, tier, compressed=False):
    """byte level mutation specs for an encoding of n bytes"""
    out = []
    step = max(1, n // (14 if tier == "quick" else 60))
    if tier != "quick" and n <= 120:
        step = 1
    for k in range(0, n, step):
        out.append("t%d" % k)
    out.append("t%d" % max(0, n - 1))
    for _ in range(8 if tier == "quick" else 24):
        out.append("f%d" % rng.randrange(max(1, n * 8)))
    for _ in range(4 if tier == "quick" else 10):
        pos = rng.randrange(max(1, n))
        out.append("s%d:%s" % (pos, bytes(rng.randrange(256) for _ in range(rng.randrange(1, 4))).hex()))
        out.append("i%d:%s" % (pos, bytes(rng.randrange(256) for _ in range(rng.randrange(1, 6))).hex()))
        out.append("d%d:%d" % (pos, rng.randrange(1, 9)))
        # length prefix / varint style edits: a byte becomes 0xff, 0x80 or 0x00
        out.append("s%d:%s" % (pos, rng.choice(["ff", "80", "00", "ffffffffffffffffff01", "7f"])))
    out.append("a%d:%d" % (rng.randrange(10 ** 6), rng.randrange(1, 40)))
    if not compressed:
        out.append("t%d,a%d:%d" % (n // 2, rng.randrange(10 ** 6), rng.randrange(1, 40)))
    return out


# ----------------------------------------------------------------------------------- the check

class C17(CaseCheck):
    pid = "C17"
    rule = ("each case builds one valid value with the crate's own code (ConfigureSequencerBlock: 0..5 rollups x 0..3 txs, "
            "deposits, legacy / typed data, with / without aspen hashes and extended commit info, boundary heights and "
            "timestamps; signed transactions over 7 action kinds) and derives, with a generator seeded by the case header, "
            "(a) every structure-aware mutation of its raw struct as Transaction / SequencerBlock / FilteredSequencerBlock / "
            "SubmittedMetadata / SubmittedRollupData and as brotli-compressed SubmittedMetadataList / SubmittedRollupDataList "
            "(field deletion, length changes of every bytes field, header field boundaries, proof index / size / audit path "
            "edits incl. leaf_index >= 2^63, tree_size 0 and 2^64-1, extra / missing / truncated path segments, rollup entries "
            "deleted / duplicated / swapped / foreign, id lists edited, list entries duplicated or one entry broken) and "
            "(b) byte level mutations of the valid encodings (truncation at every k-th byte, bit flips, overwrites with "
            "0xff/0x80 varint bytes, inserts, deletions, appended and purely random bytes, decoding one message type as "
            "another, the same on the brotli stream); non-trivial = a case with at least one accepted and one rejected input; "
            "distinct = distinct script")
    assumptions = [
        "LEVEL: proof for the validation layer only, partial for the property: the wire codecs (prost decode/encode, "
        "brotli, serde_json) and ed25519 parsing are NOT modelled or proved; they enter the theorems as an abstract codec with "
        "a round-trip law (C17_wire_lift) and are only SAMPLED here (every input of this check goes through the real prost / "
        "brotli / ed25519 code under catch_unwind)",
        "Tree::from_leaves(..).root() is modelled by the RFC 6962 tree hash mth (tied to astria-merkle by C08)",
        "SHA-256, the chain id charset rule (tendermint), ed25519 key parsing and signature verification, and the prost "
        "decoding + conversion of the transaction body and of the extended commit info are section variables of the "
        "theorems; in the correspondence the model driver uses real SHA-256 and tendermint's rule, and takes the answers of "
        "the crypto / nested-codec primitives from what the real primitives answered on the same bytes (o= facts)",
        "the 32-byte chunking of audit paths and the u64 -> usize conversions (64-bit target) are done by the drivers",
        "CheckedTransaction::new (sequencer CheckTx) is covered up to Transaction::try_from_raw on the decoded bytes; its state "
        "dependent part (nonce, chain id, action conversion) is outside this check",
    ]
    extra_tb = ("abstract in the theorems: byte strings, SHA-256, ed25519, prost/brotli codecs (round-trip law hypothesis of "
                "C17_wire_lift), tendermint chain-id rule",)
    open_statements = (
        "never-panic and consistency of the real prost / brotli / serde_json / ed25519 byte-level decoders (sampled by the "
        "correspondence stream, not proved)",
    )

    # -- generation -----------------------------------------------------------------------------
    def gen(self, rng, tier):
        self.tier = tier
        cases = []
        nb = 14 if tier == "quick" else 60
        combos = [(1, 0, 0), (1, 1, 0), (1, 1, 1), (1, 0, 1)]   # (typed data items, aspen hashes, extended commit info)
        times = [(1700000000, 0), (0, 0), (253402300799, 999999999), (-62135596800, 0), (1, 1)]
        for k in range(nb):
            items, aspen, eci = combos[k % len(combos)]
            secs, nanos = times[(k // len(combos)) % len(times)] if k % 3 == 0 else (rng.randrange(1, 2 * 10 ** 9), rng.randrange(10 ** 9))
            rollups = [0, 1, 2, 3, 5, 2, 1, 4][k % 8]
            txs = rng.choice([0, 1, 2, 3]) if rollups else 0
            if rollups and k % 5 == 0:
                txs = max(1, txs)
            deps = rng.choice([0, 0, 1, 2])
            height = rng.choice([1, 2, 77, 2 ** 32 - 1, rng.randrange(1, 10 ** 6)])
            cid = rng.choice(["test-1", "astria", "a", "A-z_0.9", "x" * 50])
            seed = rng.randrange(10 ** 9)
            cases.append(["case sb %d" % seed,
                          "mk sb seed=%d rollups=%d txs=%d deps=%d items=%d aspen=%d eci=%d height=%d secs=%d nanos=%d cid=%s" % (
                              seed, rollups, txs, deps, items, aspen, eci, height, secs, nanos, cid)])
        nt = 14 if tier == "quick" else 120
        acts = ["r", "t", "rr", "rt", "l", "s", "i", "f", "c", "rrrrrr", "tl", "rtl", "", "rs", "fc", "tttt"]
        for k in range(nt):
            seed = rng.randrange(10 ** 9)
            a = acts[k % len(acts)]
            nonce = rng.choice([0, 1, 7, 2 ** 32 - 1])
            cid = rng.choice(["test-1", "astria", ""])
            line = "mk tx seed=%d nonce=%d" % (seed, nonce)
            if a:
                line += " acts=" + a
            else:
                line += " acts=r"
            if cid:
                line += " cid=" + cid
            cases.append(["case tx %d" % seed, line])
        return cases

    # -- pass 2 ---------------------------------------------------------------------------------
    def derive(self, case, il):
        """pass-2 script lines (and their labels) for one case from its pass-1 output"""
        hdr = case[0].split()
        rng = random.Random("c17/%s/%s" % (hdr[1], hdr[2] if len(hdr) > 2 else "0"))
        tier = getattr(self, "tier", "quick")
        lines, labels = [], []

        def add(kind, z, spec, dump, label, src=None):
            lines.append("w %s %d %s %s%s" % (kind, z, spec, "@%s " % src if src else "", dump))
            labels.append(label)
        built = {}
        for l in il:
            t = l.split()
            if t[0] == "mk" and len(t) > 3 and t[2].startswith("len="):
                built.setdefault(t[1], []).append((int(t[2][4:]), t[3:]))
        budget = 40 if tier == "quick" else 150
        for kind in ("tx", "sb", "fb", "md", "rd"):
            for n, toks in built.get(kind, [])[:2 if kind == "rd" else 1]:
                v = parse(kind, toks)
                dump = fmt(kind, v)
                assert dump == " ".join(toks), "dump round trip in the python parser"
                add(kind, 0, "-", dump, "valid")
                muts = struct_muts(kind, v, rng)
                if kind != "tx" and len(muts) > budget * 3:
                    keep = [m for m in muts if any(s in m[0] for s in ("2^63", "2^64", "70seg", "size0", "none", "dup", "cross"))]
                    rest = [m for m in muts if m not in keep]
                    muts = keep + rng.sample(rest, min(len(rest), budget * 3 - len(keep)))
                for label, m in muts:
                    add(kind, 0, "-", fmt(kind, m), "s:" + label)
                for spec in byte_specs(n, rng, tier):
                    add(kind, 0, spec, dump, "b:" + spec[0])
                if kind == "tx" and v["body"] is not None:
                    # bodies edited and then signed again by the harness (S<seed>): reaches the checks
                    # behind the signature (type url, prost decoding of the body, action conversion, group rules)
                    u, val = v["body"]
                    seed = int(hdr[2])
                    resigned = [("valid", v), ("body_twice", dict(v, body=(u, val + val))), ("body_empty", dict(v, body=(u, b""))),
                                ("body_short1", dict(v, body=(u, val[:-1]))), ("body_half", dict(v, body=(u, val[:len(val) // 2]))),
                                ("body_append", dict(v, body=(u, val + b"\x0a\x00"))), ("url_bad", dict(v, body=(b"/x", val))),
                                ("url_empty", dict(v, body=(b"", val))), ("body_none", dict(v, body=None)),
                                ("url_hosted", dict(v, body=(b"type.googleapis.com" + u, val))),
                                ("url_prefixed", dict(v, body=(b"x" + u, val))), ("url_suffixed", dict(v, body=(u + b"x", val))),
                                ("url_nested", dict(v, body=(u + u, val))),
                                ("params_only", dict(v, body=(u, b"\x0a\x02\x08\x01")))]
                    for _ in range(10 if tier == "quick" else 60):
                        resigned.append(("body_flip", dict(v, body=(u, flip(val, rng)))))
                    for _ in range(3 if tier == "quick" else 12):
                        resigned.append(("body_garbage", dict(v, body=(u, bytes(rng.randrange(256) for _ in range(rng.randrange(1, 80)))))))
                    for label, m in resigned:
                        add("tx", 0, "S%d" % seed, fmt("tx", m), "r:" + label)
                # decode this encoding as every other message type
                for other in ("tx", "sb", "fb", "md", "rd", "mdl", "rdl"):
                    if other != kind:
                        add(other, 0, "-", dump, "x:%s" % kind, src=kind)
                        add(other, 0, "f%d" % rng.randrange(max(1, n * 8)), dump, "x:%s" % kind, src=kind)
        # Celestia blobs: brotli-compressed lists, as the conductor reads them
        for kind, lk in (("md", "mdl"), ("rd", "rdl")):
            vals = [parse(kind, toks) for _, toks in built.get(kind, [])]
            if not vals:
                continue
            base = vals if kind == "rd" else vals[:1]
            dump = fmt(lk, base)
            add(lk, 1, "-", dump, "valid")
            add(lk, 1, "-", fmt(lk, base + base), "s:list_dup")
            add(lk, 1, "-", "-", "s:list_empty")
            muts = struct_muts(kind, vals[0], rng)
            for label, m in rng.sample(muts, min(len(muts), budget)):
                pos = rng.randrange(len(base) + 1)
                add(lk, 1, "-", fmt(lk, base[:pos] + [m] + base[pos:]), "s:" + label)
            n = sum(x for x, _ in built.get(kind, [])) + 8
            for spec in byte_specs(n, rng, tier):
                add(lk, 1, spec, dump, "b:" + spec[0])
            for spec in byte_specs(max(8, n // 2), rng, tier, compressed=True):
                add(lk, 2, spec, dump, "z:" + spec[0])
        # purely random bytes for every decoder (plain and as a brotli stream)
        for kind in KINDS:
            for _ in range(3 if tier == "quick" else 12):
                add(kind, 2 if kind in ("mdl", "rdl") and rng.random() < 0.5 else 0,
                    "r%d:%d" % (rng.randrange(10 ** 9), rng.choice([0, 1, 2, 5, 33, 64, 200, 1000])), "-", "b:r")
        return lines, labels

    # -- execution ------------------------------------------------------------------------------
    def impl(self, cases):
        p1_text = "\n".join("\n".join(l for l in c if not l.startswith("w ")) for c in cases) + "\n"
        p1 = split_cases(run_harness("astria-core", "verif::drive", p1_text, "c17a"))
        if len(p1) != len(cases):
            return p1
        self.p2, self.labels = [], []
        for c, il in zip(cases, p1):
            explicit = [l for l in c if l.startswith("w ")]
            if explicit:
                self.p2.append(explicit)
                self.labels.append(["replay"] * len(explicit))
            else:
                lines, labels = self.derive(c, il)
                self.p2.append(lines)
                self.labels.append(labels)
        p2_text = "\n".join("\n".join(["case p2"] + v) for v in self.p2) + "\n"
        p2 = split_cases(run_harness("astria-core", "verif::drive", p2_text, "c17b", timeout=3000))
        return [a + b[1:] for a, b in zip(p1, p2)]

    @staticmethod
    def split_w(line):
        """`w kind head.. o=.. raw= dump` -> (kind, head tokens, oracle, dump tokens)"""
        t = line.split()
        kind = t[1]
        if "raw=" in t:
            k = t.index("raw=")
            head, dump = t[2:k], t[k + 1:]
        else:
            head, dump = t[2:], None
        oracle = next((x for x in head if x.startswith("o=")), "o=-")
        head = [x for x in head if not x.startswith("o=")]
        return kind, head, oracle, dump

    def model_all(self, cases, impl):
        text = []
        for il in impl:
            text.append(il[0])
            for l in il[1:]:
                if not l.startswith("w "):
                    continue
                kind, head, oracle, dump = self.split_w(l)
                if dump is None:
                    text.append("skip %s %s" % (kind, head[0]))
                else:
                    text.append("d %s %s raw= %s" % (kind, oracle, " ".join(dump)))
        return split_cases(run_model("c17", "\n".join(text) + "\n"))

    def canon(self, lines):
        out = [lines[0]]
        for l in lines[1:]:
            if not l.startswith("w "):
                continue
            kind, head, _, _ = self.split_w(l)
            keep = [x for x in head if not x.startswith(("reenc=", "acts=")) and x != "rt=true"]
            out.append("w %s %s" % (kind, " ".join(keep)))
        return out

    # -- the property, on the implementation's observations alone --------------------------------------
    def monitor(self, case, il):
        fails = []
        k = self._index.get(id(case))
        p2 = self.p2[k] if k is not None and k < len(self.p2) else []
        ws = [l for l in il if l.startswith("w ")]
        for j, l in enumerate(ws):
            kind, head, _, _ = self.split_w(l)
            src = (p2[j][:300] + ("..." if len(p2[j]) > 300 else "")) if j < len(p2) else "?"
            if head and head[0] == "panic":
                fails.append("panic: decoding as %s panicked on input #%d: %s" % (kind, j, src))
            elif head and head[0] == "ok":
                kv = dict(x.split("=", 1) for x in head[1:] if "=" in x)
                if kv.get("reenc") != "true":
                    fails.append("reenc: accepted %s does not re-encode to an equivalent message, input #%d: %s" % (kind, j, src))
                if kv.get("checks") != "true":
                    fails.append("checks: accepted %s fails its stated checks (signature / proofs against the header), input #%d: %s" % (kind, j, src))
                if kind == "sb" and kv.get("rproofs") == "false":
                    fails.append("rproofs: accepted sb carries a rollup inclusion proof that does not verify against the header, input #%d: %s" % (j, src))
        return fails

    _main_labels = None

    def evaluate(self, cases):
        self._index = {id(c): k for k, c in enumerate(cases)}
        r = super().evaluate(cases)
        if self._main_labels is None:
            self._main_labels = self.labels     # labels of the main run (shrinking re-evaluates)
        return r

    def shrink(self, case, kind):
        """a failing case is reduced to the explicit pass-2 inputs that fail (each is self-contained)"""
        try:
            r = self.evaluate([case])[0]
        except Exception:
            return case
        c, il, ml, fails = r
        p2 = self.p2[0]
        ws = [l for l in il if l.startswith("w ")]
        ci = self.canon(il)[1:]
        bad = []
        for j, l in enumerate(ws):
            _, head, _, _ = self.split_w(l)
            kvs_ = dict(x.split("=", 1) for x in head[1:] if "=" in x)
            mon = head[:1] == ["panic"] or (head[:1] == ["ok"] and (kvs_.get("reenc") != "true" or kvs_.get("checks") != "true"
                                                                    or kvs_.get("rproofs") == "false"))
            diff = ml is not None and (j + 1 >= len(ml) or ml[j + 1] != ci[j])
            if (kind == "monitor" and mon) or (kind == "correspondence" and diff):
                bad.append(p2[j])
        if not bad:
            return case
        bad.sort(key=len)
        return [case[0], bad[0]]

    def nontrivial(self, case, il):
        ws = [l for l in il if l.startswith("w ")]
        return any(" ok " in l for l in ws) and any(" err=" in l for l in ws)

    def stats(self, cases, impl):
        c = Counter()
        classes = Counter()
        for k, il in enumerate(impl):
            all_labels = self._main_labels or []
            labels = all_labels[k] if k < len(all_labels) else []
            ws = [l for l in il if l.startswith("w ")]
            for j, l in enumerate(ws):
                kind, head, _, _ = self.split_w(l)
                o = head[0] if head else "?"
                outcome = "ok" if o == "ok" else ("panic" if o == "panic" else ("werr" if o.startswith("werr") else "err"))
                lab = labels[j].split(":")[0] if j < len(labels) else "?"
                c["%s/%s/%s" % (kind, {"s": "struct", "b": "bytes", "z": "brotli-bytes", "x": "cross-type", "valid": "valid", "r": "resigned",
                                       "replay": "replay"}.get(lab, lab), outcome)] += 1
                if o.startswith("err="):
                    classes["%s:%s" % (kind, o[4:].split("@")[-1])] += 1
        d = dict(sorted(c.items()))
        d["error_classes_reached"] = len(classes)
        d["error_classes"] = dict(sorted(classes.items()))
        d["inputs_decoded"] = sum(v for k, v in c.items())
        return d


CHECK = C17()
