"""C10 — conductor executor ordering: model (coq/theories/Conductor) vs crates/astria-conductor.

Levels that run (DESIGN 4/C10): (a) unit — the real BlockCache and the pure decision functions;
(b) integrated — the real `Initialized::run_event_loop` (biased select!, spread guard,
execute_soft / execute_firm / update_commitment_state, real gRPC client) against an in-process
execution-API server, real BlockCaches and mpsc channels for the two readers, deterministic by a
barrier per `run` (see crates/astria-conductor/src/executor/verif.rs)."""
import re
from collections import Counter

from common import CaseCheck, run_harness, run_model, split_cases

I64 = 2 ** 63 - 1
U64 = 2 ** 64 - 1
MODES = ("soft", "firm", "both")


def kvs(line):
    return dict(t.split("=", 1) for t in line.split() if "=" in t)


def meta(s):
    n, h = s.split(":", 1)
    return int(n), h


class C10(CaseCheck):
    pid = "C10"
    rule = ("three families of seeded scripts. cache: every op sequence of length <= 3 (quick) / 4 (thorough) over "
            "{ins next-1..next+2, pop, drop next-1/next+1/next+3} on a fresh BlockCache plus random long ones and height "
            "boundaries (0, i64::MAX, > i64::MAX); fn: should_execute_firm_block on a grid x 3 modes, the two height<->number "
            "maps and session validation on boundary values (0, 1, start+-1, i64::MAX+-1, u64::MAX); sys: sessions in the 3 "
            "commit levels with start offsets (sequencer start 0..1000, rollup start 0..7, soft lead 0..6, look-ahead 1..50), "
            "driven by (i) honest reader streams with duplicates / out-of-order / stale fetches, random pops, state "
            "observations, enqueued sends and runs, (ii) direct deliveries in arbitrary order (firm first, long soft lead, "
            "duplicates, stale, out-of-order), (iii) batches drained by the executor's own biased select, (iv) a malformed "
            "stream: execution-API faults (wrong block number), sessions at the arithmetic limits, invalid sessions. "
            "non-trivial = a sys case with >= 3 ExecuteBlock RPCs or a cache case with >= 2 successful pops; distinct = distinct script text")
    assumptions = [
        "the execution API is the harness' server: ExecuteBlock numbers a block parent+1 (unknown parent -> non-retryable status), "
        "UpdateCommitmentState echoes its argument, pre-session blocks are one chain g<n> for n <= initial soft number",
        "reader glue (insert on fetch, drop_obsolete on a state observation, pop -> try_send / enqueue, completion of the enqueued "
        "send) is the harness' copy of the corresponding select! arms of sequencer/mod.rs and celestia/mod.rs; network fetching, "
        "blob verification and timers of the two readers are replaced by arbitrary fetched heights",
        "no rollup_end_block_number (stop height) in the sessions; celestia_search_height_max_look_ahead < 2^61 (tokio channel bound)",
        "tokio scheduling between the tasks is replaced by an explicit op order; one `run` = the executor's event loop until it would block",
    ]
    extra_tb = ("levels run: (a) unit BlockCache + pure decision functions, (b) integrated real executor event loop against an "
                "in-process gRPC execution API with a per-run barrier (deterministic)",)

    # ------------------------------------------------------------------------------ generation
    def gen(self, rng, tier):
        quick = tier == "quick"
        cases = []
        cases += self.gen_cache(rng, quick)
        cases += self.gen_fn(rng, quick)
        n = 1200 if quick else 25000
        for i in range(n):
            r = rng.random()
            if r < 0.45:
                cases.append(self.gen_honest(rng))
            elif r < 0.75:
                cases.append(self.gen_direct(rng))
            elif r < 0.87:
                cases.append(self.gen_batch(rng))
            else:
                cases.append(self.gen_malformed(rng))
        return cases

    def gen_cache(self, rng, quick):
        cases = []
        depth = 3 if quick else 4

        def alphabet(n):
            return ["ins %d" % h for h in (n - 1, n, n + 1, n + 2)] + ["pop"] + ["drop %d" % h for h in (n - 1, n + 1, n + 3)]
        tail = ["next", "pop", "pop", "pop", "pop", "next"]
        n = 5
        seqs = [[]]
        for _ in range(depth):
            seqs = [s + [o] for s in seqs for o in alphabet(n)]
            for s in seqs:
                cases.append(["case cache %d" % n] + s + tail)
        for _ in range(60 if quick else 2000):
            n = rng.choice([1, 1, 2, 7, 100, I64 - 3, I64 - 1, I64])
            lines = ["case cache %d" % n]
            for _ in range(rng.randint(5, 40)):
                r = rng.random()
                h = min(max(n + rng.randint(-2, 6), 0), U64)
                if r < 0.5:
                    lines.append("ins %d" % h)
                elif r < 0.8:
                    lines.append("pop")
                    if rng.random() < 0.7:
                        n += 1
                elif r < 0.95:
                    lines.append("drop %d" % h)
                else:
                    lines.append("next")
            cases.append(lines + tail)
        for n in (0, I64, I64 + 1, U64):
            cases.append(["case cache %d" % n, "ins %d" % min(n, U64), "ins %d" % min(n + 1, U64), "next", "pop", "pop", "next",
                          "drop %d" % I64, "drop %d" % (I64 + 1), "next"])
        return cases

    def gen_fn(self, rng, quick):
        lines = ["case fn"]
        for m in MODES:
            for f in (0, 1, 2, 5, U64):
                for s in (0, 1, 2, 5, U64):
                    lines.append("sef %d %d %s" % (f, s, m))
        vals = [0, 1, 2, 3, 10, 11, 1000, I64 - 1, I64, I64 + 1, U64 - 1, U64]
        for ss in vals:
            for rs in vals:
                for h in vals:
                    if rng.random() < (0.25 if quick else 1.0):
                        lines.append("s2r %d %d %d" % (ss, rs, h))
        cases = [lines]
        lines = ["case fn"]
        for m in MODES:
            for ss in (0, 1, 10, I64 - 2, I64 - 1, I64, I64 + 1, U64):
                for rs in (0, 1, 2, 6, 7, U64):
                    for f, s in ((0, 0), (0, 1), (5, 5), (5, 6), (6, 5), (4, 9), (U64 - 1, U64), (U64, U64), (I64, I64),
                                 (I64 - 1, I64)):
                        if rng.random() < (0.4 if quick else 1.0):
                            lines.append("sess %s %d %d %d %d" % (m, ss, rs, f, s))
        cases.append(lines)
        return cases

    @staticmethod
    def session(rng, mode=None, look=None, lead=None):
        mode = mode or rng.choice(["both"] * 5 + ["soft"] * 2 + ["firm"] * 2)
        sstart = rng.choice([0, 1, 1, 2, 5, 10, 100, 1000])
        rstart = rng.choice([0, 1, 1, 1, 2, 7])
        firm = max(rstart - 1, 0) + rng.choice([0, 0, 1, 3, 10])
        if sstart == 0 and firm + 1 == rstart:
            firm += 1          # the map would be "negative": an invalid session, see gen_malformed
        if lead is None:
            lead = rng.choice([0, 0, 0, 1, 2, 3, 6])
        soft = firm + lead
        if look is None:
            look = rng.choice([1, 2, 3, 5, 50])
        base = rng.randint(1, 60)
        nf = sstart + firm - rstart + 1
        ns = sstart + soft - rstart + 1
        head = "case sys %s %d %d %d %d %d %d" % (mode, sstart, rstart, look, firm, soft, base)
        return head, mode, nf, ns, base

    def gen_honest(self, rng):
        head, mode, nf, ns, base = self.session(rng)
        lines = [head]
        length = rng.randint(3, 14)
        soft_next, firm_next = ns, nf          # next height each reader's stream has not delivered yet
        soft_top, firm_top = ns + length, nf + length

        def soft_fetch():
            nonlocal soft_next
            r = rng.random()
            if r < 0.6 and soft_next < soft_top:
                lines.append("sf %d" % soft_next)
                soft_next += 1
            elif r < 0.8:
                lines.append("sf %d" % rng.randint(max(ns - 2, 0), soft_next + 3))
            else:
                h = soft_next + rng.randint(1, 3)          # out of order: a later block first
                lines.append("sf %d" % h)

        def firm_fetch():
            nonlocal firm_next
            r = rng.random()
            c = base + max(firm_next - nf, 0) + rng.randint(0, 2)
            if r < 0.6 and firm_next < firm_top:
                lines.append("ff %d %d" % (firm_next, c))
                firm_next += 1
            elif r < 0.8:
                lines.append("ff %d %d" % (rng.randint(max(nf - 2, 0), firm_next + 3), c))
            else:
                lines.append("ff %d %d" % (firm_next + rng.randint(1, 3), c))
        wsoft = 0 if mode == "firm" else rng.choice([1, 2, 4])
        wfirm = 0 if mode == "soft" else rng.choice([1, 2, 4])
        for _ in range(rng.randint(10, 90)):
            r = rng.random() * (wsoft * 3 + wfirm * 3 + 2)
            if r < wsoft:
                soft_fetch()
            elif r < 2 * wsoft:
                lines.append("sp")
            elif r < 3 * wsoft:
                lines.append(rng.choice(["so", "so", "sq"]))
            elif r < 3 * wsoft + wfirm:
                firm_fetch()
            elif r < 3 * wsoft + 2 * wfirm:
                lines.append("fp")
            elif r < 3 * wsoft + 3 * wfirm:
                lines.append(rng.choice(["fq", "fp"]))
            else:
                lines.append("run")
        # deliver what is still missing, then drain
        if mode != "firm":
            lines += ["sf %d" % h for h in range(ns, soft_top)]
        if mode != "soft":
            lines += ["ff %d %d" % (h, base + h - nf) for h in range(nf, firm_top)]
        for _ in range(length + 6):
            lines += ["so", "sp", "sq", "fp", "fq", "run"]
        return lines

    def gen_direct(self, rng):
        head, mode, nf, ns, base = self.session(rng, look=rng.choice([50, 50, 3]))
        lines = [head]
        ef, es = nf, ns
        for _ in range(rng.randint(4, 40)):
            r = rng.random()
            soft_turn = mode == "soft" or (mode == "both" and rng.random() < 0.55)
            if soft_turn:
                if r < 0.7:
                    h = es
                elif r < 0.93:
                    h = rng.randint(max(ns - 2, 0), es)            # duplicate / stale
                else:
                    h = es + rng.randint(1, 3)                     # out of order
                lines += ["ds %d" % h, "run"]
                if h == es:
                    es += 1
            else:
                if r < 0.88:
                    h = ef
                elif r < 0.94:
                    h = max(ef - rng.randint(1, 2), 0)
                else:
                    h = ef + rng.randint(1, 2)
                lines += ["df %d %d" % (h, base + max(h - nf, 0)), "run"]
                if h == ef:
                    if mode == "firm" or ef == es:
                        es = ef + 1
                    ef += 1
        return lines

    def gen_batch(self, rng):
        head, mode, nf, ns, base = self.session(rng, mode=rng.choice(["both", "both", "soft", "firm"]),
                                                look=rng.choice([1, 2, 3, 4, 50]))
        lines = [head]
        ef, es = nf, ns
        for _ in range(rng.randint(2, 8)):
            for _ in range(rng.randint(1, 6)):
                if mode != "firm" and (mode == "soft" or rng.random() < 0.6):
                    lines.append("ds %d" % es if rng.random() < 0.85 else "ds %d" % max(es - 1, 0))
                    es += 1 if lines[-1] == "ds %d" % es else 0
                else:
                    lines.append("df %d %d" % (ef, base + ef - nf))
                    ef += 1
                    es = max(es, ef)
            lines.append("run")
        lines += ["run", "run"]
        return lines

    def gen_malformed(self, rng):
        r = rng.random()
        if r < 0.35:
            # execution API answers a wrong block number once
            head, mode, nf, ns, base = self.session(rng, look=50)
            lines = [head]
            ef, es = nf, ns
            k = rng.randint(0, 5)
            for i in range(8):
                if i == k:
                    lines.append("bad %d" % rng.choice([1, 2, 5, U64]))
                if mode == "firm" or (mode == "both" and rng.random() < 0.4):
                    lines += ["df %d %d" % (ef, base + i), "run"]
                    if mode == "firm" or ef == es:
                        es = ef + 1
                    ef += 1
                else:
                    lines += ["ds %d" % es, "run"]
                    es += 1
            return lines
        if r < 0.6:
            # sessions at the arithmetic limits
            mode = rng.choice(MODES)
            k = rng.randint(0, 4)
            sstart = I64 - k
            rstart = rng.choice([0, 1, 1, 2])
            firm = max(rstart - 1, 0) + rng.choice([0, 1, 2])
            soft = firm + rng.choice([0, 0, 1, 2])
            head = "case sys %s %d %d %d %d %d %d" % (mode, sstart, rstart, rng.choice([1, 5]), firm, soft, 3)
            nf = sstart + firm - rstart + 1
            ns = sstart + soft - rstart + 1
            lines = [head]
            for i in range(6):
                if mode != "firm":
                    lines += ["sf %d" % (ns + i), "sp", "run"]
                if mode != "soft":
                    lines += ["ff %d %d" % (nf + i, 3 + i), "fp", "run"]
                lines += ["so"]
            return lines
        if r < 0.8:
            # invalid sessions
            mode = rng.choice(MODES)
            kind = rng.choice(["firm_gt_soft", "rstart", "look0", "sstart", "u64", "negative"])
            p = dict(sstart=10, rstart=1, look=5, firm=3, soft=4, base=1)
            if kind == "firm_gt_soft":
                p.update(firm=5, soft=4)
            elif kind == "rstart":
                p.update(rstart=rng.choice([5, 6, 7]))
            elif kind == "look0":
                p.update(look=0)
            elif kind == "sstart":
                p.update(sstart=rng.choice([I64 + 1, U64]))
            elif kind == "u64":
                p.update(firm=rng.choice([U64 - 1, U64]), soft=U64)
            else:
                p.update(sstart=0, rstart=4, firm=3, soft=rng.choice([3, 4]))
            head = "case sys %s %d %d %d %d %d %d" % (mode, p["sstart"], p["rstart"], p["look"], p["firm"], p["soft"], p["base"])
            return [head, "sf 13", "sp", "ff 13 1", "fp", "run", "ds 14", "run"]
        # out-of-order direct deliveries ending the executor, then more traffic
        head, mode, nf, ns, base = self.session(rng, look=50)
        lines = [head]
        if mode != "firm":
            lines += ["ds %d" % ns, "run", "ds %d" % (ns + 2), "run", "ds %d" % (ns + 1), "run"]
        else:
            lines += ["df %d %d" % (nf, base), "run", "df %d %d" % (nf + 2, base), "run", "df %d %d" % (nf + 1, base), "run"]
        return lines

    # ------------------------------------------------------------------------------ running
    def impl(self, cases):
        text = "\n".join("\n".join(c) for c in cases) + "\n"
        return split_cases(run_harness("astria-conductor", "executor::verif::drive", text, "c10"))

    def model_all(self, cases, impl):
        text = "\n".join("\n".join(c) for c in cases) + "\n"
        return split_cases(run_model("c10", text))

    MAX_PER_CATEGORY = 2

    def evaluate(self, cases):
        """as CaseCheck.evaluate, but at most MAX_PER_CATEGORY failing cases are kept per failure category (the
        text before the first colon); the rest are counted in self.suppressed and logged, so that a systematic
        breakage yields a handful of shrunk replays instead of hundreds"""
        out = super().evaluate(cases)
        if len(cases) <= 1:
            return out
        seen = Counter()
        res = []
        for c, il, ml, fails in out:
            keep = []
            for kind, what in fails:
                if self.classify(what, c, il):
                    keep.append((kind, what))
                    continue
                cat = (kind, "" if kind == "correspondence" else what.split(":")[0])
                seen[cat] += 1
                if seen[cat] <= self.MAX_PER_CATEGORY:
                    keep.append((kind, what))
            res.append((c, il, ml, keep))
        self.suppressed = {"%s/%s" % k: v - self.MAX_PER_CATEGORY for k, v in seen.items() if v > self.MAX_PER_CATEGORY}
        if self.suppressed:
            from common import log
            log("[C10] further failing cases not reported individually: %s" % self.suppressed)
        return res

    # ------------------------------------------------------------------------------ monitor
    def monitor(self, case, il):
        """C10's conclusions evaluated on the implementation's observations alone."""
        kind = case[0].split()[1]
        if kind == "cache":
            return self.monitor_cache(il)
        if kind == "sys":
            return self.monitor_sys(case, il)
        return []

    @staticmethod
    def monitor_cache(il):
        fails, last = [], None
        for l in il[1:]:
            m = re.match(r"pop -> (\d+)$", l)
            if m:
                h = int(m.group(1))
                if last is not None and h <= last:
                    fails.append("BlockCache pops not increasing: %d after %d" % (h, last))
                last = h
        return fails

    @staticmethod
    def monitor_sys(case, il):
        fails = []
        _, _, mode, sstart, rstart, look, firm0, soft0, base0 = case[0].split()
        sstart, rstart = int(sstart), int(rstart)
        if len(il) < 3 or not il[1].startswith("init ok"):
            # no session: nothing may reach the rollup
            if any(l.startswith("rpc ") for l in il):
                fails.append("RPC without a session")
            return fails
        st = kvs(il[2])
        firm, soft = meta(st["firm"]), meta(st["soft"])
        presoft = soft[0]
        head = firm if mode == "firm" else soft
        first_h = st["nf"] if mode == "firm" else st["ns"]
        execs = []                 # (parent, height, num, hash)
        exec_height = {}           # hash -> height
        took_firm, took_soft = [], []
        firm_updates = 0
        for l in il[3:]:
            if l.startswith("run ->"):
                kv = kvs(l)
                took_firm += [int(x) for x in kv.get("tookf", "").split(";") if x]
                took_soft += [int(x) for x in kv.get("tooks", "").split(";") if x]
            elif l.startswith("rpc exec") and "fail" not in l.split():
                kv = kvs(l)
                h = int(kv["h"])
                if not execs:
                    if kv["parent"] != head[1]:
                        fails.append("first ExecuteBlock not on the session head: parent %s, head %s" % (kv["parent"], head[1]))
                    if first_h != "x" and h != int(first_h):
                        fails.append("first ExecuteBlock not for the next expected height: %d, expected %s" % (h, first_h))
                else:
                    p = execs[-1]
                    if h != p[1] + 1:
                        fails.append("ExecuteBlock heights not consecutive: %d after %d" % (h, p[1]))
                    if kv["parent"] != p[3]:
                        fails.append("ExecuteBlock not on the previously executed block: height %d on parent %s, previous height executed as %s" % (h, kv["parent"], p[3]))
                execs.append((kv["parent"], h, int(kv["num"]), kv["hash"]))
                exec_height[kv["hash"]] = h
                if len(execs) > len(took_firm) + len(took_soft):
                    fails.append("ExecuteBlock without a delivered block")
                elif h not in took_firm and h not in took_soft:
                    fails.append("ExecuteBlock for a height no reader delivered: %d" % h)
            elif l.startswith("rpc update"):
                kv = kvs(l)
                nf_, ns_ = meta(kv["firm"]), meta(kv["soft"])
                if nf_[0] < firm[0]:
                    fails.append("firm commitment decreased: %d -> %d" % (firm[0], nf_[0]))
                if ns_[0] < soft[0]:
                    fails.append("soft commitment decreased: %d -> %d" % (soft[0], ns_[0]))
                if nf_[0] > ns_[0]:
                    fails.append("firm commitment exceeds soft: %d > %d" % (nf_[0], ns_[0]))
                if nf_ != firm:
                    firm_updates += 1
                    if firm_updates > len(took_firm):
                        fails.append("firm commitment changed without a firm block")
                    else:
                        hf = took_firm[firm_updates - 1]
                        if nf_[1] in exec_height:
                            if exec_height[nf_[1]] != hf:
                                fails.append("firm commitment names a block executed from another height: firm block of height %d commits %s, executed from height %d" % (
                                    hf, nf_[1], exec_height[nf_[1]]))
                        elif nf_[1] == "g%d" % nf_[0] and nf_[0] <= presoft:
                            if nf_[0] != rstart + (hf - sstart):
                                fails.append("firm commitment names the wrong pre-session block: firm block of height %d commits number %d" % (hf, nf_[0]))
                        else:
                            fails.append("firm commitment names a block that was never executed: %s" % nf_[1])
                firm, soft = nf_, ns_
        return fails

    def classify(self, what, case, il):
        """F14 (known): FirmOnly session that starts with soft ahead of firm: the first firm block is
        executed on top of firm and both commitments are set to it, so the soft commitment goes back."""
        t = case[0].split()
        if len(t) == 9 and t[1] == "sys" and t[2] == "firm" and int(t[7]) > int(t[6]) \
                and what.startswith("soft commitment decreased"):
            return ("F14 FirmOnly session starting with soft ahead of firm: execute_firm re-executes height firm+1 on top of the "
                    "firm block and Update::ToSame moves the soft commitment backwards (first update only)")
        return None

    # ------------------------------------------------------------------------------ evidence
    def nontrivial(self, case, il):
        kind = case[0].split()[1]
        if kind == "sys":
            return sum(1 for l in il if l.startswith("rpc exec")) >= 3
        if kind == "cache":
            return sum(1 for l in il if re.match(r"pop -> \d+$", l)) >= 2
        return False

    def stats(self, cases, impl):
        c = Counter()
        for case, il in zip(cases, impl):
            t = case[0].split()
            c["case_" + t[1] + ("_" + t[2] if t[1] == "sys" else "")] += 1
            if t[1] == "sys" and int(t[7]) > int(t[6]):
                c["sys_soft_lead_at_start"] += 1
            execs = 0
            for l in il[1:]:
                w = l.split()
                if w[0] == "init":
                    c["init_" + w[1].replace(":", "_")] += 1
                elif w[0] == "rpc":
                    c["rpc_" + w[1] + ("_fail" if w[-1] == "fail" else "")] += 1
                    execs += w[1] == "exec"
                elif w[0] == "run":
                    c["run_" + w[2].replace(":", "_")] += 1
                    kv = kvs(l)
                    c["delivered_firm"] += len([x for x in kv.get("tookf", "").split(";") if x])
                    c["delivered_soft"] += len([x for x in kv.get("tooks", "").split(";") if x])
                elif w[0] == "st":
                    pass
                elif "->" in w:
                    r = w[w.index("->") + 1].split("=")[0]
                    if r == "h":
                        r = w[-1]
                    c["op_" + w[0] + "_" + ("value" if r.isdigit() else r)] += 1
            if t[1] == "sys":
                c["sys_execs_ge3"] += execs >= 3
        c["stale_or_duplicate_deliveries_dropped"] = c["delivered_firm"] + c["delivered_soft"] - c["rpc_exec"] - c["rpc_exec_fail"]
        return dict(c)


CHECK = C10()
