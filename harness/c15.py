"""C15 — oracle vote extensions: model (coq/theories/Oracle) vs crates/astria-sequencer
(app/vote_extension.rs) and astria-core (oracles/price_feed/utils.rs).

One case = one extended commit (validator set in state, last commit, extended commit with
extensions/signatures, the proposal's id -> pair mapping).  The Rust hook runs
validate_vote_extensions, ProposalHandler::validate_proposal, ProposalHandler::prepare_proposal
(+ validate_proposal on what the proposer would put into the block),
calculate_prices_from_vote_extensions and apply_prices_from_vote_extensions on it."""
import json
import os
from collections import Counter

from common import CaseCheck, VERIF, run_harness, run_model, split_cases

PMAX = 2 ** 63 - 1            # tendermint::vote::Power is bounded by i64::MAX
U64 = 2 ** 64 - 1
I128_MAX = 2 ** 127 - 1
I128_MIN = -2 ** 127
FLAGS = ("absent", "commit", "nil", "legacy")

FINDING_ID = "F13"
FINDING_TEXT = ("F13 median(): for an even number of reports whose two middle values are the same negative odd "
                "i128 the published price is that value + 1, above every reported price "
                "(astria-core oracles/price_feed/utils.rs: `x % 2 == 1` is false for negative odd x)")


# ------------------------------------------------------------------------------------------ parsing

def parse_ext(spec):
    """-> ('empty'|'garbage'|'unknown'|'prices', [(id, int | ('L', n))])"""
    if spec == "-":
        return "empty", []
    if spec == "g":
        return "garbage", []
    if spec == "u":
        return "unknown", []
    d = {}
    for it in spec.split(","):
        i, p = it.split(":")
        d[int(i)] = ("L", int(p[1:])) if p.startswith("L") else int(p)
    return "prices", sorted(d.items())


def parse_case(case):
    hdr = case[0].split()
    kv = dict(t.split("=", 1) for t in hdr[2:])
    c = {"h": int(kv["h"]), "ecr": int(kv["ecr"]), "lcr": int(kv["lcr"]), "maxpairs": int(kv["maxpairs"]),
         "vals": [], "pairs": [], "votes": [], "lc": [], "map": []}
    for l in case[1:]:
        t = l.split()
        if t[0] == "val":
            c["vals"].append(int(t[1]))
        elif t[0] == "pair":
            c["pairs"].append((int(t[1]), int(t[2]), int(t[3])))
        elif t[0] == "vote":
            c["votes"].append({"k": int(t[1]), "power": int(t[2]), "flag": t[3], "ext": t[4], "sig": t[5]})
        elif t[0] == "lc":
            c["lc"].append((int(t[1]), int(t[2]), t[3]))
        elif t[0] == "map":
            c["map"].append((int(t[1]), int(t[2]), int(t[3])))
    return c


def sig_valid(c, v):
    """does the vote carry a signature by the validator it is attributed to (as stored in state)
    over (its extension, h-1, the extended commit's round, the chain id)?"""
    if v["k"] not in c["vals"]:
        return False
    kind, _, arg = v["sig"].partition(":")
    if kind == "ok":
        return True
    if kind == "by":
        return int(arg) == v["k"]
    if kind == "round":
        return int(arg) == c["ecr"]
    if kind == "height":
        return c["h"] >= 1 and int(arg) == c["h"] - 1
    return False          # none, zero, chain, ext


def obs(il):
    out = {}
    for l in il[1:]:
        t = l.split(" ", 1)
        out[t[0]] = t[1] if len(t) > 1 else ""
    return out


def reports_by_group(c):
    """the price lists the block reports: {(name, dec): [prices]} following the block's mapping;
    only well-formed (16 byte) prices of decodable extensions"""
    mp = {}
    for i, name, dec in c["map"]:
        mp[i] = (name, dec)
    groups = {}
    for v in c["votes"]:
        kind, items = parse_ext(v["ext"])
        for i, p in items:
            if isinstance(p, int) and i in mp:
                groups.setdefault(mp[i], []).append(p)
    return groups


def tie_class(zs):
    s = sorted(zs)
    n = len(s)
    return n > 0 and n % 2 == 0 and s[n // 2] == s[n // 2 - 1] and s[n // 2] < 0 and s[n // 2] % 2 == 1


# ------------------------------------------------------------------------------------------ the check

class C15(CaseCheck):
    pid = "C15"
    rule = ("seeded extended commits: 1-7 validators (own keys), power distributions {equal, small random, exact "
            "2/3-boundary splits S=floor(2T/3)+{-1,0,1,2} for totals with T mod 3 = 0,1,2, one whale, zero powers, "
            "u64/i64 extremes incl. totals above 2^63 and above 2^64}, signer subsets, rounds, heights (1, 2.., 2^63-1, "
            "0 and 2^63+1 for the panic paths); price vectors {small, negative, all-equal negative odd (tie class), "
            "i128 extremes, mixed}; malformed stream: duplicated voter, forged signature (other key / zero bytes / other "
            "round, height, chain id, extension), missing signature, nil/absent/legacy vote with extension or signature, "
            "unknown validator, too many prices, price bytes of length 0/15/17/33/34/40, undecodable and unknown-field "
            "extensions, last-commit mismatches (round, length, address, power, flag), wrong id->pair mapping, empty "
            "extended commit; non-trivial = height >= 2 and at least two votes; distinct = distinct script text")
    assumptions = [
        "ed25519 is abstract in the theorems (arbitrary sig_ok); the model is run with an ideal scheme (signature = "
        "signer key + signed message), the implementation with real ed25519 over CanonicalVoteExtension",
        "protobuf decoding of OracleVoteExtension is abstract: an extension is a canonical id->bytes map, undecodable "
        "bytes, or non-empty bytes decoding to no prices",
        "validator address <-> key: the address is a function of the key; two keys with one address are not modelled",
        "state reads (chain id, base prefix, market map, currency-pair state) succeed; the market map lists every "
        "stored pair (get_id_to_currency_pair's error paths are not modelled)",
        "the height-1 shortcut of validate_proposal/prepare_proposal is unreachable from App (theorem "
        "C15_enabled_above_one: vote extensions are enabled only strictly above a non-zero enable height); the "
        "monitor therefore makes no demand at height 1",
        "process_proposal's proposed_last_commit is the projection of the proposer's local_last_commit "
        "(hypothesis of C15_honest_proposal_accepted)",
    ]
    open_statements = (
        "stmt_median_in_range_full (every published price lies between two reported prices, for ALL i128 price "
        "vectors) is false of the code: refuted by C15_median_in_range_refuted (finding F13); proved instead: "
        "C15_median_in_range (all vectors outside the tie class), C15_median_in_range_nonneg, "
        "C15_median_tie_off_by_one, C15_median_within_one",
    )
    extra_tb = ("sequencer harness: crates/astria-sequencer/src/app/vote_extension/verif.rs (StateDelta over an empty "
                "TempStorage snapshot, real ed25519 keys SigningKey::from([k;32]), real prost encoding)",)

    # -- generation -----------------------------------------------------------------------------
    def gen(self, rng, tier):
        n = 450 if tier == "quick" else 25000
        cases = []
        for i in range(n):
            cases.append(self.gen_case(rng, i))
        return cases

    @staticmethod
    def split(rng, total, parts):
        """random composition of `total` into `parts` integers in [0, PMAX]"""
        if parts == 0:
            return []
        assert total <= parts * PMAX
        out = []
        rest = total
        for j in range(parts - 1):
            lo = max(0, rest - (parts - 1 - j) * PMAX)
            hi = min(PMAX, rest)
            x = rng.choice([lo, hi, rng.randint(lo, hi), rng.randint(lo, hi)])
            out.append(x)
            rest -= x
        out.append(rest)
        rng.shuffle(out)
        return out

    def powers(self, rng, nv, nsign):
        """-> (signer powers, non-signer powers)"""
        kind = rng.choice(["boundary"] * 8 + ["equal"] * 3 + ["small"] * 2 + ["whale"] * 2 + ["zero"] + ["extreme"] * 4)
        if kind == "equal":
            p = rng.choice([1, 1, 2, 10, 1000, PMAX // 8])
            return [p] * nsign, [p] * (nv - nsign)
        if kind == "small":
            return [rng.randint(0, 9) for _ in range(nsign)], [rng.randint(0, 9) for _ in range(nv - nsign)]
        if kind == "whale":
            ps = [rng.randint(1, 5) for _ in range(nv)]
            ps[rng.randrange(nv)] = rng.choice([100, 10 ** 6, PMAX // 2])
            return ps[:nsign], ps[nsign:]
        if kind == "zero":
            return [0] * nsign, [rng.choice([0, 0, 1])] * (nv - nsign)
        if kind == "extreme":
            total = rng.choice([PMAX, PMAX + 1, 2 ** 63 + 7, U64 // 2, U64 // 2 + 1, U64 - 1, U64, U64 + 1,
                                2 * PMAX, 3 * PMAX, 2 ** 62, 3 * 2 ** 61, rng.randint(2 ** 62, 2 ** 65)])
            total = min(total, nv * PMAX)
        else:
            total = rng.choice([rng.randint(1, 40), rng.randint(1, 40), rng.randint(3, 10 ** 6),
                                3 * rng.randint(1, 10 ** 9), 3 * rng.randint(1, 10 ** 9) + 1,
                                3 * rng.randint(1, 10 ** 9) + 2, (U64 // 2) - rng.randint(0, 3)])
            total = min(total, nv * PMAX)
        s = 2 * total // 3 + rng.choice([-1, 0, 1, 1, 1, 2, 2, rng.randint(1, max(1, total // 3))])
        s = max(0, min(s, total, nsign * PMAX))
        if nv == nsign:
            s = total
        if total - s > (nv - nsign) * PMAX:
            s = total - (nv - nsign) * PMAX
        return self.split(rng, s, nsign), self.split(rng, total - s, nv - nsign)

    @staticmethod
    def price_vector(rng, n):
        return [max(I128_MIN, min(I128_MAX, z)) for z in C15.price_vector_raw(rng, n)]

    @staticmethod
    def price_vector_raw(rng, n):
        style = rng.choice(["small", "small", "neg", "tie", "huge", "hugeneg", "mixed", "pairs"])
        if style == "small":
            base = rng.randint(0, 10 ** 6)
            return [base + rng.randint(0, 20) for _ in range(n)]
        if style == "neg":
            return [rng.randint(-9, 9) for _ in range(n)]
        if style == "tie":
            x = rng.choice([-1, -3, -5, -2 ** 64 - 1, I128_MIN + 1])
            v = [x] * n
            if n > 2 and rng.random() < 0.5:
                v[rng.randrange(n)] = x + rng.choice([-2, 2, 10, -1])
            return v
        if style == "huge":
            return [I128_MAX - rng.randint(0, 3) for _ in range(n)]
        if style == "hugeneg":
            return [I128_MIN + rng.randint(0, 3) for _ in range(n)]
        if style == "pairs":
            a, b = rng.randint(-50, 50), rng.randint(-50, 50)
            return [rng.choice([a, b]) for _ in range(n)]
        return [rng.choice([I128_MAX, I128_MIN, 0, 1, -1, rng.randint(-10 ** 30, 10 ** 30)]) for _ in range(n)]

    def gen_case(self, rng, idx):
        nv = rng.choice([1, 2, 3, 3, 4, 4, 5, 6, 7])
        keys = rng.sample(range(1, 60), nv + 2)
        spare = keys[nv:]
        keys = keys[:nv]
        r = rng.random()
        if r < 0.3:
            nsign = nv
        elif r < 0.7:
            nsign = rng.randint((2 * nv + 2) // 3, nv)
        elif r < 0.95:
            nsign = rng.randint(1, nv)
        else:
            nsign = 0
        sp, np_ = self.powers(rng, nv, nsign)
        h = rng.choice([2, 3, 5, 17, rng.randint(2, 10 ** 6), rng.randint(2, 10 ** 6), PMAX, rng.randint(2, PMAX)])
        ecr = rng.choice([0, 0, 1, 2, 7])
        lcr = ecr
        npairs = rng.choice([0, 1, 2, 2, 3, 4])
        ids = sorted(rng.sample(range(0, 12), npairs))
        pairs = [(i, 100 + i, rng.choice([0, 6, 8, 18])) for i in ids]
        maxpairs = rng.choice([npairs, npairs, npairs + 1, 12])
        votes = []
        order = list(range(nv))
        rng.shuffle(order)
        signers = set(order[:nsign])
        vec = {i: self.price_vector(rng, nv) for i in ids}
        si, ni = 0, 0
        for j in range(nv):
            if j in signers:
                rep = [i for i in ids if rng.random() < 0.9]
                items = ["%d:%d" % (i, vec[i][j]) for i in rep]
                if rng.random() < 0.08 and len(items) + 1 <= maxpairs:
                    items.append("77:%d" % rng.randint(0, 100))      # an id the state does not know
                    items.sort(key=lambda s: int(s.split(":")[0]))
                votes.append({"k": keys[j], "power": sp[si], "flag": "commit",
                              "ext": ",".join(items) if items else "-", "sig": "ok"})
                si += 1
            else:
                votes.append({"k": keys[j], "power": np_[ni], "flag": rng.choice(["nil", "absent", "absent"]),
                              "ext": "-", "sig": "none"})
                ni += 1
        lc = [[v["k"], v["power"], v["flag"]] for v in votes]
        vals = list(keys)
        mp = self.honest_map(votes, pairs)
        # ---- malformed stream
        nmut = rng.choice([0, 0, 0, 1, 1, 1, 2])
        if rng.random() < 0.04:
            votes, lc, mp = [], [], []
            if rng.random() < 0.3:
                lcr = ecr + 1
            if rng.random() < 0.3:
                mp = [(0, 100, 6)]
            if rng.random() < 0.5:
                lc = [[keys[0], 1, "commit"]]
            nmut = 0
        for _ in range(nmut):
            self.mutate(rng, votes, lc, vals, mp, pairs, spare, ecr, h)
        r = rng.random()
        if r < 0.03:
            lcr = ecr + 1
        elif r < 0.05:
            h = 1
        elif r < 0.06:
            h = rng.choice([0, 2 ** 63 + 1, 2 ** 63])
        lines = ["case %d h=%d ecr=%d lcr=%d maxpairs=%d" % (idx, h, ecr, lcr, maxpairs)]
        lines += ["val %d %d" % (k, 1) for k in vals]
        lines += ["pair %d %d %d" % p for p in pairs]
        lines += ["vote %d %d %s %s %s" % (v["k"], v["power"], v["flag"], v["ext"], v["sig"]) for v in votes]
        lines += ["lc %d %d %s" % tuple(x) for x in lc]
        lines += ["map %d %d %d" % m for m in mp]
        return lines

    @staticmethod
    def honest_map(votes, pairs):
        known = {i: (name, dec) for i, name, dec in pairs}
        seen = []
        for v in votes:
            kind, items = parse_ext(v["ext"])
            for i, _ in items:
                if i in known and i not in seen:
                    seen.append(i)
        return [(i,) + known[i] for i in seen]

    def mutate(self, rng, votes, lc, vals, mp, pairs, spare, ecr, h):
        if not votes:
            return
        j = rng.randrange(len(votes))
        v = votes[j]
        commits = [x for x in votes if x["flag"] == "commit"]
        m = rng.choice(["dup", "forge", "forge", "nosig", "ncext", "ncsig", "unknownval", "toomany", "pricelen",
                        "pricelen", "garbage", "unknownext", "lcround", "lclen", "lcaddr", "lcpower", "lcflag",
                        "mapdrop", "mapextra", "mapname", "mapdec", "pruned", "legacy", "resign", "power1"])
        if m == "dup":
            votes.insert(rng.randrange(len(votes) + 1), dict(v))
            lc.insert(min(j, len(lc)), [v["k"], v["power"], v["flag"]])
        elif m == "forge" and commits:
            c = rng.choice(commits)
            others = [x["k"] for x in votes if x["k"] != c["k"]] + spare
            c["sig"] = rng.choice(["zero", "by:%d" % rng.choice(others), "round:%d" % (ecr + 1), "round:%d" % ecr,
                                   "height:%d" % h, "height:%d" % max(0, h - 2), "height:%d" % max(0, h - 1),
                                   "chain", "ext", "by:%d" % c["k"]])
        elif m == "nosig" and commits:
            rng.choice(commits)["sig"] = "none"
        elif m == "ncext":
            v["flag"] = rng.choice(["nil", "absent", "legacy"])
            v["ext"] = rng.choice(["0:5", "u", "g"]) if v["ext"] == "-" else v["ext"]
            v["sig"] = rng.choice(["none", "ok"])
            if j < len(lc) and rng.random() < 0.7:
                lc[j][2] = v["flag"]
        elif m == "ncsig":
            v["flag"] = rng.choice(["nil", "absent", "legacy"])
            v["ext"] = "-"
            v["sig"] = rng.choice(["ok", "zero"])
            if j < len(lc) and rng.random() < 0.7:
                lc[j][2] = v["flag"]
        elif m == "unknownval":
            if v["k"] in vals:
                vals.remove(v["k"])
        elif m == "toomany" and commits:
            c = rng.choice(commits)
            c["ext"] = ",".join("%d:%d" % (i, i) for i in range(20, 20 + rng.choice([3, 5, 13])))
        elif m == "pricelen" and commits:
            c = rng.choice(commits)
            kind, items = parse_ext(c["ext"])
            target = items[0][0] if items else (pairs[0][0] if pairs else 3)
            ln = rng.choice([0, 1, 15, 17, 32, 33, 34, 40])
            new = ["%d:L%d" % (target, ln)] + ["%d:%d" % (i, p) for i, p in items[1:] if isinstance(p, int)]
            c["ext"] = ",".join(new)
        elif m == "garbage":
            v["ext"] = "g"
        elif m == "unknownext":
            v["ext"] = "u"
        elif m == "lcround":
            pass        # handled by the caller's lcr mutation probability; keep the stream balanced
        elif m == "lclen" and lc:
            if rng.random() < 0.5:
                lc.pop(rng.randrange(len(lc)))
            else:
                lc.append([spare[0], 1, "commit"])
        elif m == "lcaddr" and len(lc) >= 2:
            a, b = rng.sample(range(len(lc)), 2)
            lc[a], lc[b] = lc[b], lc[a]
        elif m == "lcpower" and j < len(lc):
            lc[j][1] = max(0, min(PMAX, lc[j][1] + rng.choice([-1, 1])))
        elif m == "lcflag" and j < len(lc):
            lc[j][2] = rng.choice([f for f in FLAGS if f != lc[j][2]])
        elif m == "mapdrop" and mp:
            mp.pop(rng.randrange(len(mp)))
        elif m == "mapextra":
            free = [p for p in pairs if p[0] not in [x[0] for x in mp]]
            mp.append(free[0] if free else (55, 155, 6))
        elif m == "mapname" and mp:
            k = rng.randrange(len(mp))
            other = [x for x in mp if x != mp[k]]
            mp[k] = (mp[k][0], other[0][1] if other and rng.random() < 0.5 else mp[k][1] + 50, mp[k][2])
        elif m == "mapdec" and mp:
            k = rng.randrange(len(mp))
            mp[k] = (mp[k][0], mp[k][1], mp[k][2] + 1)
        elif m == "pruned":
            # what an honest proposer does with an extension it cannot verify; last commit keeps the flag
            v["flag"], v["ext"], v["sig"] = "absent", "-", "none"
        elif m == "legacy":
            v["flag"] = "legacy"
            if j < len(lc) and rng.random() < 0.5:
                lc[j][2] = "legacy"
        elif m == "resign" and commits:
            c = rng.choice(commits)
            c["ext"] = rng.choice(["-", "u", c["ext"]])
        elif m == "power1":
            v["power"] = max(0, min(PMAX, v["power"] + rng.choice([-1, 1])))
            if j < len(lc):
                lc[j][1] = v["power"]

    # -- execution ------------------------------------------------------------------------------
    def impl(self, cases):
        text = "\n".join("\n".join(c) for c in cases) + "\n"
        return split_cases(run_harness("astria-sequencer", "app::vote_extension::verif::drive", text, "c15"))

    def model_all(self, cases, impl):
        text = "\n".join("\n".join(c) for c in cases) + "\n"
        return split_cases(run_model("c15", text))

    # -- the property, on the implementation's observations only ----------------------------------
    def monitor(self, case, il):
        c = parse_case(case)
        o = obs(il)
        fails = []
        votes = c["votes"]
        total = sum(v["power"] for v in votes)

        def quorum_failures(label, counted):
            """conclusions required of an accepted, non-empty extended commit"""
            out = []
            bad = [v["k"] for v in counted if not sig_valid(c, v)]
            if bad:
                out.append("%s: accepted although the extension attributed to validator(s) %s is not validly signed "
                           "by them" % (label, sorted(set(bad))))
            contributed = {}
            for v in counted:
                if sig_valid(c, v):
                    contributed[v["k"]] = max(contributed.get(v["k"], 0), v["power"])
            sub = sum(contributed.values())
            if not 3 * sub > 2 * total:
                out.append("%s: accepted with %d of %d listed voting power (not more than two thirds)" % (label, sub, total))
            return out

        if c["h"] >= 2 and votes:
            commits = [v for v in votes if v["flag"] == "commit"]
            if o.get("vve") == "ok":
                fails += quorum_failures("validate_vote_extensions", commits)
            if o.get("validate") == "ok":
                fails += quorum_failures("validate_proposal", commits)
                if c["lcr"] != c["ecr"]:
                    fails.append("validate_proposal: accepted although the round differs from the last commit's")
                if len(c["lc"]) != len(votes):
                    fails.append("validate_proposal: accepted although the last commit lists %d votes and the "
                                 "extended commit %d" % (len(c["lc"]), len(votes)))
                else:
                    for (lk, lp, lf), v in zip(c["lc"], votes):
                        if lk != v["k"] or lp != v["power"]:
                            fails.append("validate_proposal: accepted although validator/power (%d,%d) differs from "
                                         "the last commit's (%d,%d)" % (v["k"], v["power"], lk, lp))
                            break
                        if v["flag"] == "commit" and lf != "commit":
                            fails.append("validate_proposal: accepted a counted vote of validator %d that the last "
                                         "commit records as %s" % (v["k"], lf))
                            break
            pr = o.get("prepare", "")
            if pr.startswith("ok"):
                desc = dict(t.split("=", 1) for t in pr.split()[1:])["votes"]
                flags = [] if desc == "-" else desc.split(",")
                if len(flags) == len(votes):
                    counted = [v for v, f in zip(votes, flags) if f.startswith("c")]
                    if flags:
                        fails += quorum_failures("prepare_proposal", counted)
        # an empty extended commit (what the proposer falls back to) is always acceptable
        if not votes and c["lcr"] == c["ecr"] and not c["map"] and o.get("validate") != "ok":
            fails.append("empty extended commit rejected: validate=%s" % o.get("validate"))
        # block production continues: what the proposer builds from its local commit is accepted
        honest_lc = c["lcr"] == c["ecr"] and [(v["k"], v["power"], v["flag"]) for v in votes] == list(c["lc"])
        if honest_lc and 1 <= c["h"] <= 2 ** 63 and o.get("revalidate") not in ("ok",):
            fails.append("proposer's own extended commit rejected by validate_proposal: prepare=%s revalidate=%s" % (
                o.get("prepare"), o.get("revalidate")))
        # published prices: only for reported pairs, and within the reported range
        groups = reports_by_group(c)
        by_name = {}
        for (name, _), zs in groups.items():
            by_name.setdefault(name, []).extend(zs)
        for key in ("prices", "apply"):
            val = o.get(key, "")
            if not val.startswith("ok"):
                continue
            body = val[2:].strip()
            for item in ([] if body in ("", "-") else body.split(",")):
                lhs, price = item.split("=")
                name = int(lhs.split(":")[0])
                price = int(price)
                zs = by_name.get(name)
                if not zs:
                    fails.append("range: %s publishes %d for pair %d which no vote of the block reports" % (key, price, name))
                elif not min(zs) <= price <= max(zs):
                    fails.append("range: %s publishes %d for pair %d outside the reported range [%d, %d]" % (
                        key, price, name, min(zs), max(zs)))
        return fails

    def classify(self, what, case, impl_lines):
        """F13: recognise exactly the out-of-range publications explained by the tie class."""
        if "range: " not in what or "outside the reported range" not in what:
            return None
        c = parse_case(case)
        t = what.split("range: ", 1)[1].split()
        price, name = int(t[2]), int(t[5])
        for (gname, _), zs in reports_by_group(c).items():
            if gname == name and tie_class(zs):
                s = sorted(zs)
                if price == s[len(s) // 2] + 1:
                    for f in self.findings():
                        if f.get("id") == FINDING_ID and f.get("status") == "known":
                            return f["what"]
                    return FINDING_TEXT
        return None

    @staticmethod
    def findings():
        p = os.path.join(VERIF, "known_findings.json")
        try:
            return [f for f in json.load(open(p))["findings"] if f["property"] == "C15"]
        except (OSError, ValueError, KeyError):
            return []

    def nontrivial(self, case, il):
        c = parse_case(case)
        return c["h"] >= 2 and len(c["votes"]) >= 2

    def stats(self, cases, impl):
        st = Counter()
        for case, il in zip(cases, impl):
            c = parse_case(case)
            o = obs(il)
            for k in ("vve", "validate", "prepare", "revalidate"):
                st["%s_%s" % (k, o.get(k, "?").split()[0])] += 1
            st["prices_" + o.get("prices", "?").split()[0]] += 1
            st["apply_" + o.get("apply", "?").split()[0]] += 1
            total = sum(v["power"] for v in c["votes"])
            sub = sum(v["power"] for v in c["votes"] if v["flag"] == "commit")
            if c["votes"] and abs(3 * sub - 2 * total) <= 3:
                st["threshold_boundary_cases"] += 1
            if 2 * total > U64:
                st["power_overflow_cases"] += 1
            st["votes_%d" % min(len(c["votes"]), 8)] += 1
            if any(tie_class(zs) for zs in reports_by_group(c).values()):
                st["tie_class_groups"] += 1
            if any(any(z < 0 for z in zs) for zs in reports_by_group(c).values()):
                st["negative_price_cases"] += 1
            if o.get("validate") == "ok" and c["votes"] and c["h"] >= 2 and o.get("prices", "").startswith("err"):
                st["accepted_but_unaggregatable"] += 1
        return dict(st)


CHECK = C15()
