"""C07 — rollup data is complete, ordered and provable from block to rollup.

Model coq/theories/BlockData (on top of the Merkle model of C08) vs
  * crates/astria-sequencer  (hook app::verif_c07::drive, extends the app harness of app/verif.rs)
  * crates/astria-conductor  (hook celestia::verify::verif_c07::drive: the real
    reconstruct_blocks_from_verified_blobs on the bytes published by the sequencer side)

Script grammar (pass 1, sequencer): every op of harness/notes/sequencer_app_harness.md, plus
  c07block <txid>...                      finalize+commit a block; prints txres lines, `block height=`, `c07 blockdata`
  c07 full h=<H|last|last-k>              gRPC get_sequencer_block -> bytes -> SequencerBlock::try_from_raw
  c07 filt h=.. ids=<r,..|->              gRPC get_filtered_sequencer_block -> bytes -> FilteredSequencerBlock::try_from_raw
  c07 cel h=.. [dump=1]                   split_for_celestia -> bytes -> SubmittedMetadata / SubmittedRollupData + audit
  c07 tamper <full|filt|cel> h=.. [ids=..] [dump=1] <op> <args>     one tampering of the raw protobuf, then the receiver
     ops: alter j k | swap j k | drop j k | dup j k | app j <hex> | reid j rX | mvdata j j2 | swapproof j j2 |
          pidx j v | psize j v | ppath j k | ppathdrop j | rmentry j | dupentry j | swapentry j j2 | rtr | dh | bh |
          idsdrop k | idsadd rX | idsswap k | rtpidx v | rtpsize v | ripidx v | ripsize v | swaprtprip
Pass 2 (conductor), generated here from the `c07 celraw` lines of pass 1:
  recon rollup=<r> metas=<hex,..> blobs=<hex,..>
"""
import hashlib
import itertools
import re
from collections import Counter

from common import CaseCheck, TieBroken, run_harness, run_model, split_cases

EMPTY_DIG = hashlib.sha256(b"").hexdigest()[:16]
ROLLUPS = ["r0", "r1", "r2", "r3", "r5", "r9", "r77", "r200", "r255"]
FUNDED = [0, 1, 2, 5]          # a3, a4 become bridge accounts
UNFUNDED = [6, 7, 8]
LENS = [0, 1, 1, 2, 3, 5, 8, 8, 31, 32, 33, 127, 128, 300]


def rid_key(r):
    """sort key of a rollup id token = its 32 bytes"""
    if r.startswith("r") and r[1:].isdigit():
        return bytes([int(r[1:])]) * 32
    return bytes.fromhex(r)


def kvs(line):
    d = {}
    for t in line.split():
        if "=" in t:
            k, _, v = t.partition("=")
            d.setdefault(k, v)
    return d


def lst(v):
    return [] if v in ("-", "", None) else v.split(",")


def varint(n):
    out = b""
    while n >= 128:
        out += bytes([(n & 127) | 128])
        n >>= 7
    return out + bytes([n])


def enc_seq(payload):
    """RollupData{sequenced_data = payload} protobuf encoded (oneof member: written even if empty)"""
    return b"\x0a" + varint(len(payload)) + payload


def list_digest(items):
    h = hashlib.sha256()
    for it in items:
        h.update(len(it).to_bytes(8, "little"))
        h.update(it)
    return h.hexdigest()[:16]


def mth(hs):
    n = len(hs)
    if n == 0:
        return hashlib.sha256(b"").digest()
    if n == 1:
        return hs[0]
    k = 1
    while k * 2 < n:
        k *= 2
    return hashlib.sha256(b"\x01" + mth(hs[:k]) + mth(hs[k:])).digest()


def pb_fields(buf):
    """minimal protobuf reader: yields (field number, wire type, value)"""
    i = 0
    while i < len(buf):
        key = 0
        shift = 0
        while True:
            b = buf[i]
            i += 1
            key |= (b & 127) << shift
            shift += 7
            if b < 128:
                break
        f, w = key >> 3, key & 7
        if w == 0:
            v = 0
            shift = 0
            while True:
                b = buf[i]
                i += 1
                v |= (b & 127) << shift
                shift += 7
                if b < 128:
                    break
            yield f, w, v
        elif w == 2:
            ln = 0
            shift = 0
            while True:
                b = buf[i]
                i += 1
                ln |= (b & 127) << shift
                shift += 7
                if b < 128:
                    break
            yield f, w, buf[i:i + ln]
            i += ln
        elif w == 1:
            yield f, w, buf[i:i + 8]
            i += 8
        elif w == 5:
            yield f, w, buf[i:i + 4]
            i += 4
        else:
            return


def blob_rollup(hexblob):
    """rollup id token of a raw SubmittedRollupData (field 2 = RollupId{inner = 1})"""
    try:
        for f, w, v in pb_fields(bytes.fromhex(hexblob)):
            if f == 2 and w == 2:
                for f2, w2, v2 in pb_fields(v):
                    if f2 == 1 and w2 == 2:
                        if len(v2) == 32 and len(set(v2)) == 1:
                            return "r%d" % v2[0]
                        return v2.hex()
    except (IndexError, ValueError):
        pass
    return None


class Expect:
    """what one block must carry, computed from the `c07 blockdata` line (script-derived)"""

    def __init__(self, a):
        self.h = int(a["h"])
        self.supported = a.get("supported") == "true"
        self.data = {}
        order = []
        for s in lst(a["subs"]):
            r, _, p = s.partition(":")
            if r not in self.data:
                self.data[r] = []
                order.append(r)
            self.data[r].append(enc_seq(b"" if p == "e" else bytes.fromhex(p)))
        self.seq_only = {r: list(v) for r, v in self.data.items()}
        self.ndeps = 0
        for s in lst(a["deps"]):
            r, _, d = s.partition(":")
            self.data.setdefault(r, []).append(bytes.fromhex(d))
            self.ndeps += 1
        self.ids = sorted(self.data, key=rid_key)
        self.bh = a["bh"]
        self.rest = [x.partition(":")[::2] for x in lst(a["rest"])]
        self.d0, self.d1 = a.get("d0"), a.get("d1")
        self.items = lst(a.get("items"))

    def summary(self, r):
        items = self.data.get(r, [])
        return "%s:%d:%s" % (r, len(items), list_digest(items))

    def nd(self, r):
        items = self.data.get(r, [])
        return (len(items), list_digest(items))

    def comet_data_hash(self):
        """CometBFT's data hash of the block: RFC 6962 over sha256(item) of EVERY data item"""
        leaves = [bytes.fromhex(self.d0), bytes.fromhex(self.d1)] + [bytes.fromhex(h) for h in self.items]
        return mth([hashlib.sha256(b"\x00" + x).digest() for x in leaves]).hex()


class C07(CaseCheck):
    pid = "C07"
    rule = ("seeded chains (Aspen at height 1, 2, 3 or never; Blackburn later or never => legacy, typed and upgrade-activation "
            "blocks), two bridge accounts, 2-6 blocks of 0-6 transactions from several signers with 1-3 actions each: rollup "
            "data submissions to 0-6 rollup ids with empty / duplicate / prefix-related payloads, bridge locks and bridge "
            "transfers (deposits with and without sequenced data of the same rollup), transfers, and transactions that fail "
            "(unfunded signer, failing later action, wrong nonce) and must not contribute; every block is read back through "
            "get_sequencer_block, get_filtered_sequencer_block for every subset of (present ids + an absent id) when that is "
            "<= 16 subsets, else sampled subsets (incl. repeated and reversed ids), and split_for_celestia; per form the "
            "single tamperings alter/swap/drop/dup/app/reid/mvdata/swapproof/proof index, size, path/rmentry/dupentry/"
            "swapentry/rtr/dh/bh/ids edits/block-level proof edits; the published Celestia bytes (honest and tampered) are "
            "given to the conductor's reconstruct_blocks_from_verified_blobs for every present rollup and an absent one; "
            "non-trivial = a block with >= 2 rollups or a deposit; distinct = distinct script")
    assumptions = [
        "SHA-256 is abstract in the theorems; collision freedom enters as the explicit Coll disjunct (node, leaf, plain hash collisions and leaf/node/empty domain clashes)",
        "protobuf encoding of one RollupData item is abstract (encS, encD); the model driver re-implements the framing of SequencedData, deposits are encoded by the harness from the script's own Deposit values; round trips of the real prost codecs are exercised by the hooks",
        "which transactions of a block execute successfully is the ledger's business (C01-C05): the expectation uses the harness' dry run for that and nothing else",
        "storage (cnidarium nonverifiable store) is modelled as the identity; its behaviour is sampled by reading every block back",
        "no type binds the astria header (rollup_transactions_root, data_hash) to block_hash: attribution to another BLOCK is detectable only against the CometBFT header (C09), stated as C07_block_hash_unbound",
    ]
    extra_tb = ("Rust hooks: crates/astria-sequencer/src/app/verif_c07.rs (reuses app/verif.rs), crates/astria-conductor/src/celestia/verify/verif_c07.rs",)

    # ------------------------------------------------------------------ generation
    def gen(self, rng, tier):
        n = 30 if tier == "quick" else 600
        return [self.gen_case(rng, i, tier) for i in range(n)]

    def gen_case(self, rng, idx, tier):
        aspen, blackburn = rng.choice([(1, 3), (1, 3), (2, 4), (3, 5), (1, 0), (0, 0), (1, 2)])
        lines = ["case c07 %d aspen=%d blackburn=%d" % (idx, aspen, blackburn),
                 "genesis aspen=%d blackburn=%d" % (aspen, blackburn)]
        pool = rng.sample(ROLLUPS, rng.randint(2, 6))
        bridge_rollups = {3: rng.choice(pool + ["r7"]), 4: rng.choice(pool + ["r7", "r8"])}
        nonce = Counter()
        uid = [0]

        def tid():
            uid[0] += 1
            return "t%d_%d" % (idx, uid[0])

        # block 1: the bridge accounts (and sometimes data)
        ids = []
        for acct, r in bridge_rollups.items():
            t = tid()
            lines.append("tx %s a%d 0 initbridge rollup=%s asset=s0 fee=s0 sudo=a%d withdrawer=a%d" % (t, acct, r, acct, acct))
            nonce[acct] = 1
            ids.append(t)
        pred = []      # per block: predicted {rollup: item count}
        first = {}
        for _ in range(rng.choice([0, 1, 1, 2, 3])):
            t, p = self.gen_tx(rng, tid, nonce, pool, None, fail=None)
            lines.append(t[1])
            ids.append(t[0])
            for r, c in p.items():
                first[r] = first.get(r, 0) + c
        lines.append("c07block " + " ".join(ids))
        pred.append(first)
        nblocks = rng.randint(2, 4) if tier == "quick" else rng.randint(2, 6)
        tamper_block = rng.randrange(1, nblocks + 1)
        self.serve_ops(rng, lines, pred, pool, heavy=False, tier=tier)
        for b in range(1, nblocks + 1):
            ntx = rng.choice([0, 1, 2, 3, 3, 4, 4, 5, 6, 8])
            ids, cnt = [], {}
            for _ in range(ntx):
                fail = rng.choice([None] * 7 + ["unfunded", "later", "nonce"])
                t, p = self.gen_tx(rng, tid, nonce, pool, bridge_rollups, fail)
                lines.append(t[1])
                ids.append(t[0])
                for r, c in p.items():
                    cnt[r] = cnt.get(r, 0) + c
            if rng.random() < 0.08:
                ids.append("nosuchtx")
            lines.append("c07block " + " ".join(ids))
            pred.append(cnt)
            self.serve_ops(rng, lines, pred, pool, heavy=(b == tamper_block), tier=tier)
        return lines

    def gen_tx(self, rng, tid, nonce, pool, bridges, fail):
        """returns ((id, line), predicted {rollup: items contributed})"""
        t = tid()
        signer = rng.choice(UNFUNDED) if fail == "unfunded" else rng.choice(FUNDED)
        n = nonce[signer] + (5 if fail == "nonce" else 0)
        acts, contrib = [], {}
        for _ in range(rng.choice([1, 1, 1, 2, 2, 3])):
            kind = rng.choice(["rollup"] * 6 + (["lock"] * 3 + ["btransfer"] if bridges else []) + ["transfer"])
            if kind == "rollup":
                r = rng.choice(pool)
                ln = rng.choice(LENS)
                if ln == 0 and fail is None:
                    fail = "emptydata"      # a submission without data is refused when the tx is constructed
                acts.append("rollup id=%s len=%d fee=s0" % (r, ln))
                contrib[r] = contrib.get(r, 0) + 1
            elif kind == "lock":
                acct = rng.choice(list(bridges))
                acts.append("lock to=a%d amt=%d asset=s0 fee=s0 dest=dest%d" % (acct, rng.randint(1, 1000), rng.randint(0, 9)))
                contrib[bridges[acct]] = contrib.get(bridges[acct], 0) + 1
            elif kind == "btransfer":
                # only the bridge's withdrawer may sign it: the bridge account itself
                src, dst = rng.sample(list(bridges), 2)
                signer = src
                n = nonce[signer] + (5 if fail == "nonce" else 0)
                acts = ["btransfer to=a%d amt=1 fee=s0 dest=bt%d bridge=a%d blk=%d evid=ev%s" % (dst, rng.randint(0, 9), src, rng.randint(1, 99), t)]
                contrib = {bridges[dst]: 1}
                break
            else:
                acts.append("transfer to=a%d amt=%d asset=s0 fee=s0" % (rng.choice(FUNDED), rng.randint(1, 50)))
        if fail == "later":
            acts.append("transfer to=a1 amt=%d asset=s0 fee=s0" % (10 ** 30))
        line = "tx %s a%d %d %s" % (t, signer, n, " ; ".join(acts))
        if fail is None:
            nonce[signer] += 1
            return (t, line), contrib
        return (t, line), {}

    def serve_ops(self, rng, lines, pred, pool, heavy, tier):
        cur = pred[-1]
        present = sorted((r for r, c in cur.items() if c > 0), key=rid_key)
        absent = [r for r in ROLLUPS + ["r7", "r8", "r123"] if r not in present]
        lines.append("c07 full h=last")
        universe = present + [rng.choice(absent)]
        if len(universe) <= 4:
            subsets = [list(c) for k in range(len(universe) + 1) for c in itertools.combinations(universe, k)]
        else:
            subsets = [[], list(universe), list(reversed(universe))]
            for _ in range(6 if tier == "quick" else 10):
                subsets.append(rng.sample(universe, rng.randint(1, len(universe))))
        if present:
            subsets.append([present[0], present[0]] + present[-1:])
        for s in subsets:
            lines.append("c07 filt h=last ids=%s" % (",".join(s) or "-"))
        lines.append("c07 cel h=last dump=1")
        if len(pred) >= 2 and rng.random() < 0.4:
            k = rng.randint(1, len(pred) - 1)
            lines.append("c07 full h=last-%d" % k)
            lines.append("c07 filt h=last-%d ids=%s" % (k, ",".join(rng.sample(ROLLUPS, 3))))
        # tamperings
        nent = len(present)
        budget = (26 if heavy else 4) if tier == "quick" else (40 if heavy else 8)
        for form in ("full", "filt", "cel"):
            ids_kv = ""
            ents = present
            if form == "filt":
                req = present if (heavy or not present) else rng.sample(present, rng.randint(1, len(present)))
                req = list(req)
                rng.shuffle(req)
                ids_kv = " ids=%s" % (",".join(req) or "-")
                ents = req
            ops = self.tamper_ops(rng, ents, cur, present, absent, form)
            rng.shuffle(ops)
            for op in ops[:budget]:
                dump = " dump=1" if form == "cel" and rng.random() < 0.6 else ""
                lines.append("c07 tamper %s h=last%s%s %s" % (form, ids_kv, dump, op))

    def tamper_ops(self, rng, ents, cnt, present, absent, form):
        ops = ["rtr", "dh", "bh", "swaprtprip", "rtpidx 1", "rtpidx 0", "rtpsize 0", "rtpsize 4", "ripidx 0", "ripidx 2",
               "ripsize 3", "ripsize %d" % (2 ** 64 - 1), "rtpidx %d" % (2 ** 63)]
        if form != "full":
            ops += ["idsdrop 0", "idsdrop %d" % max(0, len(present) - 1), "idsadd %s" % rng.choice(absent), "idsswap 0",
                    "idsadd %s" % (present[0] if present else "r1")]
        n = len(ents)
        for j in range(n):
            c = cnt.get(ents[j], 0)
            ks = sorted({0, c - 1, rng.randrange(max(1, c))} & set(range(max(0, c))))
            for k in ks:
                ops += ["alter %d %d" % (j, k), "drop %d %d" % (j, k), "dup %d %d" % (j, k)]
            for k in range(max(0, min(c - 1, 3))):
                ops.append("swap %d %d" % (j, k))
            ops += ["app %d %s" % (j, rng.choice(["0a00", "0a0101", "00", "ff", enc_seq(bytes(range(5))).hex()])),
                    "reid %d %s" % (j, rng.choice(absent)), "pidx %d %d" % (j, rng.choice([0, 1, j + 1, 2 ** 63])),
                    "psize %d %d" % (j, rng.choice([0, 1, 2 * n - 1, 2 * n + 1, 2 * n - 3 if n > 1 else 3, 2 ** 64 - 1])),
                    "ppath %d %d" % (j, rng.randrange(3)), "ppathdrop %d" % j, "rmentry %d" % j, "dupentry %d" % j]
            for j2 in range(n):
                if j2 != j:
                    ops += ["reid %d %s" % (j, ents[j2]), "mvdata %d %d" % (j, j2), "swapproof %d %d" % (j, j2),
                            "swapentry %d %d" % (j, j2)]
        ops += ["alter 9 0", "rmentry 7", "swapproof 0 9"]
        return ops

    # ------------------------------------------------------------------ execution
    def impl(self, cases):
        text = "\n".join("\n".join(c) for c in cases) + "\n"
        p1 = split_cases(run_harness("astria-sequencer", "app::verif_c07::drive", text, "c07", timeout=3000))
        if len(p1) != len(cases):
            return p1
        # pass 2: the published bytes through the conductor's reconstruction
        self.recon = []          # per case: list of (model line, label)
        script = []
        for c, il in zip(cases, p1):
            script.append("case r")
            ops = []
            for l in il:
                if not l.startswith("c07 celraw "):
                    continue
                a = kvs(l)
                blobs = lst(a["blobs"])
                ids = [blob_rollup(b) for b in blobs]
                tam = a.get("tamper", "-")
                present = sorted({i for i in ids if i}, key=rid_key)
                absent = next(r for r in ["r123", "r124", "r125"] if r not in present)
                targets = present[:4] + [absent]
                for r in targets:
                    own = [b for b, i in zip(blobs, ids) if i == r]
                    script.append("recon rollup=%s metas=%s blobs=%s" % (r, a["meta"], ",".join(own) or "-"))
                    ops.append("recon h=%s tamper=%s rollup=%s blobs=own" % (a["h"], tam, r))
                if tam == "-" and blobs:
                    # blobs of OTHER rollups posted into the namespace of r (anyone can post to a namespace;
                    # finding F16, repaired: the conductor must ignore them)
                    for r in [absent] + (present[-1:] if len(present) >= 2 else []):
                        script.append("recon rollup=%s metas=%s blobs=%s" % (r, a["meta"], ",".join(blobs)))
                        ops.append("recon h=%s tamper=- rollup=%s blobs=all" % (a["h"], r))
            self.recon.append(ops)
        p2 = split_cases(run_harness("astria-conductor", "celestia::verify::verif_c07::drive", "\n".join(script) + "\n",
                                     "c07r", timeout=3000))
        if len(p2) != len(cases):
            return p1[:-1]      # forces the length check of evaluate() to report a broken tie
        out = []
        for il, rl, ops in zip(p1, p2, self.recon):
            if len(rl) - 1 != len(ops):
                raise TieBroken("conductor hook printed %d lines for %d recon ops" % (len(rl) - 1, len(ops)))
            out.append(il + ["%s -> %s" % (o, r) for o, r in zip(ops, rl[1:])])
        return out

    def model_all(self, cases, impl):
        parts = []
        for c, il in zip(cases, impl):
            parts.append("\n".join(self.model_script(c, il)))
        out = split_cases(run_model("c07", "\n".join(parts) + "\n"))
        res = []
        for il, ml in zip(impl, out):
            # label the model's recon lines like the implementation's
            ops = [l.split(" -> ")[0] for l in il if l.startswith("recon ")]
            k = 0
            lab = []
            for l in ml:
                if l.startswith("recon "):
                    lab.append("%s -> %s" % (ops[k] if k < len(ops) else "?", l))
                    k += 1
                else:
                    lab.append(l)
            res.append(lab)
        return res

    def model_script(self, case, il):
        out = [case[0]]
        blocks = [l for l in il if l.startswith("block ") or l.startswith("c07block ")]
        bdata = {kvs(l)["h"]: l for l in il if l.startswith("c07 blockdata ")}
        bi = 0
        for l in case[1:]:
            t = l.split()
            if not t:
                continue
            if t[0] == "c07block":
                b = blocks[bi] if bi < len(blocks) else ""
                bi += 1
                a = kvs(b)
                if "height" in a and a["height"] in bdata:
                    d = kvs(bdata[a["height"]])
                    out.append("block h=%s bh=%s subs=%s deps=%s rest=%s" % (d["h"], d["bh"], d["subs"], d["deps"], d["rest"]))
            elif t[0] == "c07":
                out.append(l)
        out += [l.split(" -> ")[0] for l in il if l.startswith("recon ")]
        return out

    def canon(self, lines):
        out = []
        for l in lines:
            if l.startswith("case "):
                out.append(l)
            elif l.startswith("c07 blockdata "):
                out.append("block h=%s build=ok" % kvs(l)["h"])
            elif l.startswith("c07 celraw "):
                continue
            elif l.startswith("c07 ") or l.startswith("recon "):
                out.append(l)
        return out

    # ------------------------------------------------------------------ oracle on the implementation alone
    def monitor(self, case, il):
        fails = []
        exp = {}
        for l in il:
            if l.endswith(" panic") or (l.startswith("c07") and l.endswith(" parseerr")):
                fails.append("harness op failed: %r" % l)
            if l.startswith("block err="):
                fails.append("honest proposal not finalized: %r" % l)
            if l.startswith("c07 blockdata "):
                e = Expect(kvs(l))
                exp[e.h] = e
        for l in il:
            t = l.split()
            if l.startswith("recon "):
                fails += self.check_recon(l, exp)
                continue
            if len(t) < 3 or t[0] != "c07" or t[1] in ("blockdata", "celraw"):
                continue
            a = kvs(l)
            tam = t[1] == "tamper"
            form = t[2] if tam else t[1]
            e = exp.get(int(a["h"])) if a.get("h", "").isdigit() else None
            if e is None or not e.supported:
                continue
            if "serve" in a:
                fails.append("stored block not served: %r" % l[:200])
                continue
            if not tam and "proof=" in l and any(re.fullmatch(r"e\d+", x) for x in t[3:6]):
                # detail line of an honest read: the proof must verify and the entry be the expected one
                if a.get("ok") != "true":
                    fails.append("served proof does not verify: %r" % l[:200])
                if (a["n"], a["dig"]) != tuple(map(str, e.nd(a["id"]))):
                    fails.append("served list differs from the script: rollup %s %r (expected %s)" % (a["id"], l[:160], e.summary(a["id"])))
                continue
            accepted = a.get("recv") == "ok"
            data = lst(a.get("data"))
            if not tam:
                if not accepted:
                    fails.append("honest %s form rejected: %r" % (form, l[:200]))
                    continue
                if form == "filt":
                    want = []
                    for r in lst(a.get("ids")):
                        if r in e.data and e.summary(r) not in want:
                            want.append(e.summary(r))
                else:
                    want = [e.summary(r) for r in e.ids]
                if data != want:
                    fails.append("%s form carries other data than demanded: height %d carries %s, the script demands %s" % (form, e.h, data, want))
                if form != "full" and lst(a.get("all")) != e.ids:
                    fails.append("%s form lists wrong rollup ids: height %d lists %s, rollups with data are %s" % (form, e.h, a.get("all"), e.ids))
                if form == "cel" and set(lst(a.get("blobs"))) - {"ok"}:
                    fails.append("published blob fails the audit: %r" % l[:200])
                if a.get("bh") != e.bh:
                    fails.append("served block hash differs: %r" % l[:120])
            elif accepted:
                # a tampered form that is accepted must still carry only exact data
                for d in data:
                    r = d.split(":")[0]
                    if r not in e.data or d != e.summary(r):
                        fails.append("tampered %s form accepted with wrong data: rollup %s %r (expected %s)" % (
                            form, r, l[:220], e.summary(r) if r in e.data else "no data"))
                if form == "full" and data != [e.summary(r) for r in e.ids]:
                    fails.append("tampered full block accepted incomplete: %r" % l[:220])
                if form != "full" and lst(a.get("all")) != e.ids:
                    fails.append("tampered %s form accepted with wrong ids: %s instead of %s: %r" % (form, a.get("all"), e.ids, l[:160]))
        return fails

    def check_recon(self, l, exp):
        """`recon h= tamper= rollup= blobs=own|all -> recon metas= blobs= out=hash16:n:dig,..`"""
        fails = []
        lhs, _, rhs = l.partition(" -> ")
        a, o = kvs(lhs), kvs(rhs)
        if rhs.strip() in ("recon panic", "recon parseerr"):
            return ["conductor hook failed: %r" % l[:160]]
        e = exp.get(int(a["h"]))
        if e is None or not e.supported:
            return fails
        r = a["rollup"]
        for blk in lst(o.get("out")):
            hh, n, dig = blk.split(":")
            want = e.nd(r)
            if (int(n), dig) != want:
                whose = next((x for x in e.ids if e.nd(x) == (int(n), dig)), None)
                fails.append("conductor reconstructed foreign data (%s): conductor of rollup %s reconstructed a block with %s items (digest %s); the block holds %s for it%s [%s]" % (
                    a.get("blobs"), r, n, dig, "%d items (digest %s)" % want, "; that is the data of rollup %s" % whose if whose else "", lhs))
        return fails

    def nontrivial(self, case, il):
        for l in il:
            if l.startswith("c07 blockdata "):
                e = Expect(kvs(l))
                if len(e.ids) >= 2 or e.ndeps:
                    return True
        return False

    def shrink(self, case, kind):
        return case      # later ops depend on earlier blocks; the failing line is named in the replay

    def stats(self, cases, impl):
        c = Counter()
        for case, il in zip(cases, impl):
            exp = {}
            for l in il:
                if l.startswith("c07 blockdata "):
                    e = Expect(kvs(l))
                    exp[e.h] = e
                    c["blocks"] += 1
                    c["rollups_per_block=%d" % len(e.ids)] += 1
                    c["blocks_with_deposits"] += bool(e.ndeps)
                    c["rollups_deposit_only"] += sum(1 for r in e.ids if r not in e.seq_only)
                    c["rollups_with_duplicate_items"] += sum(1 for r in e.ids if len(set(e.data[r])) < len(e.data[r]))
                    c["empty_payload_items"] += sum(v.count(b"\x0a\x00") for v in e.data.values())
                    kinds = {k for k, _ in e.rest}
                    c["blocks_legacy_or_typed:" + ("upgrade_item" if "u" in kinds else "no_upgrade_item")] += 1
                    c["blocks_with_extended_commit_info"] += "e" in kinds
                t = l.split()
                if l.startswith("txres "):
                    c["txres_" + t[2].split("=")[0]] += 1
                if len(t) > 2 and t[0] == "c07" and t[1] in ("full", "filt", "cel") and " recv=" in l and " raw=" in l:
                    c["honest_" + t[1]] += 1
                    a = kvs(l)
                    e = exp.get(int(a["h"]))
                    if t[1] == "full" and e is not None and e.d0 and e.d0 != "-":
                        same = e.comet_data_hash() == a["dh"]
                        c["observation:header.data_hash_%s_cometbft_data_hash(%s)" % (
                            "equals" if same else "differs_from",
                            "upgrade_item" if any(k == "u" for k, _ in e.rest) else "no_upgrade_item")] += 1
                if len(t) > 3 and t[0] == "c07" and t[1] == "tamper":
                    a = kvs(l)
                    op = next((x for x in t[3:] if "=" not in x), "?")
                    c["tamper_%s_%s_%s" % (t[2], op, "accepted" if a.get("recv") == "ok" else "rejected")] += 1
                    if a.get("changed") == "false":
                        c["tamper_noop"] += 1
                if l.startswith("recon "):
                    c["recon_" + kvs(l.split(" -> ")[0]).get("blobs", "?")] += 1
        return dict(c)


CHECK = C07()
