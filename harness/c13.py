"""C13 — sequencer app-side mempool: model (coq/theories/Mempool) vs crates/astria-sequencer.

Script grammar (see crates/astria-sequencer/src/mempool/verif.rs):
  case <parked_max> <accounts> <assets> | tx <id> <acct> <nonce> <group> <asset> <amount> <fee_asset>
  bump <acct> <k> | bal <acct> <asset> <amount> | fee <transfer> <init> | ins <id> | insd <id>
  rm <id> | maint <recost> <height> <id>*        (model only: advance <seconds>)
"""
from collections import Counter

from common import CaseCheck, TieBroken, run_harness, run_model, split_cases

U32 = 2 ** 32 - 1
U128 = 2 ** 128 - 1
PER_ACCOUNT = 15


def parse(line):
    """observation line -> (op tokens, res, dump dict)"""
    head, _, tail = line.partition(" | ")
    t = head.split()
    res = t[-1].split("=", 1)[1] if t and t[-1].startswith("res=") else None
    ops = t[:-1] if res is not None else t
    d = {}
    for x in tail.split():
        k, _, v = x.partition("=")
        d[k] = v
    return ops, res, d


def entries(v):
    """'a.n.id.costs,...' -> [(acct, nonce, id, {asset: cost})]"""
    out = []
    for x in v.split(","):
        if not x:
            continue
        p = x.split(".")
        if len(p) != 4 or not p[1].isdigit():
            out.append((p[0], None, x, {}))
            continue
        costs = {}
        if p[3] not in ("-", "?"):
            for c in p[3].split("/"):
                a, _, amt = c.partition(":")
                costs[int(a)] = int(amt)
        out.append((int(p[0]), int(p[1]), p[2], costs))
    return out


class C13(CaseCheck):
    pid = "C13"
    rule = ("seeded op scripts over 1-3 accounts x 1-2 assets on a fresh Mempool(parked_max in {0..6,16,40}); ops: "
            "tx definitions with sequential / gapped / repeated / too-low nonces in all four action groups, CheckTx "
            "through service::mempool::check_tx, direct Mempool::insert, remove_tx_invalid, balance and fee changes, "
            "nonce bumps, blocks (bump + maintenance with the included ids), maintenance with and without recosting; "
            "plus a malformed stream (undefined ids, redefinitions, out-of-range accounts) and u32::MAX / u128::MAX "
            "boundary cases; a case is non-trivial when some transaction changes place other than by its own "
            "insertion (promotion, demotion, removal); distinct = distinct script text")
    assumptions = [
        "wall-clock expiry (TX_TTL 240 s) and the 60 s retention / capacity eviction of the result and removal caches are model-only (the harness cannot move the clock; capacities are never reached)",
        "the chain nonce of an account never decreases (scripts only bump it)",
        "state reads never fail; every fee asset is allowed and every action has fee components",
        "run_maintenance visits accounts in HashSet order: steps whose outcome can depend on that order (total parked limit reachable with >= 2 accounts present) end the model/implementation comparison of that case; the monitors still apply",
    ]

    # ------------------------------------------------------------------ generation
    def gen(self, rng, tier):
        n = 400 if tier == "quick" else 8000
        cases = [self.gen_case(rng, malformed=(i % 9 == 8)) for i in range(n)]
        cases += self.boundary_cases(rng)
        cases += [self.app_case(rng, i) for i in range(4 if tier == "quick" else 40)]
        return cases

    def gen_case(self, rng, malformed=False):
        pmax = rng.choice([0, 1, 2, 3, 3, 4, 4, 6, 6, 8, 16, 16, 40, 40])
        K = rng.choice([1, 2, 2, 3])
        A = rng.choice([1, 2, 2])
        lines = ["case %d %d %d" % (pmax, K, A)]
        cn = [0] * K                      # generator's idea of the chain nonce
        nn = [0] * K                      # next fresh nonce per account
        by_nonce = [dict() for _ in range(K)]
        ids = []
        bal = [[0] * A for _ in range(K)]
        nid = [1]
        height = [10]
        big = rng.random() < 0.25         # roomy balances: long pending runs, few demotions

        def setbal(a, asset, v):
            bal[a][asset] = v
            lines.append("bal %d %d %d" % (a, asset, v))

        for a in range(K):
            for asset in range(A):
                setbal(a, asset, rng.choice([1000, 10 ** 6]) if big else rng.choice([0, 8, 20, 20, 50, 50, 120, 1000]))
        if rng.random() < 0.5:
            lines.append("fee %d %d" % (rng.choice([0, 1, 2, 5]), rng.choice([0, 3, 7])))

        def newtx(a=None, nonce=None):
            a = rng.randrange(K) if a is None else a
            if nonce is None:
                r = rng.random()
                if r < 0.62:
                    nonce = nn[a]
                elif r < 0.80:
                    nonce = nn[a] + rng.randint(1, 3)
                elif r < 0.90:
                    nonce = rng.randint(cn[a], max(cn[a], nn[a]))
                elif r < 0.96:
                    nonce = rng.randint(0, max(0, cn[a]))
                else:
                    nonce = nn[a] + rng.randint(4, 20)
            g = rng.choice([4, 4, 4, 4, 4, 3, 3, 2, 1])
            asset = rng.randrange(A)
            fa = rng.randrange(A)
            amt = rng.choice([0, 1, 2, 3, 5, 5, 8, 10, 10, 15, 20, 30, 60])
            i = nid[0]
            nid[0] += 1
            lines.append("tx %d %d %d %d %d %d %d" % (i, a, nonce, g, asset, amt, fa))
            ids.append(i)
            by_nonce[a].setdefault(nonce, i)
            nn[a] = max(nn[a], nonce + 1) if nonce <= nn[a] + 3 else nn[a]
            return i

        steps = rng.randint(8, 70)
        for _ in range(steps):
            r = rng.random()
            if r < 0.50 or not ids:
                i = newtx()
                lines.append(("ins %d" if rng.random() < 0.9 else "insd %d") % i)
            elif r < 0.58:
                lines.append(("ins %d" if rng.random() < 0.8 else "insd %d") % rng.choice(ids))
            elif r < 0.68:
                a, asset = rng.randrange(K), rng.randrange(A)
                cur = bal[a][asset]
                v = rng.choice([0, cur // 2, cur // 3, max(0, cur - rng.randint(1, 15)), cur + rng.randint(1, 40),
                                cur + 200, rng.choice([3, 7, 12, 25])])
                setbal(a, asset, v)
                if rng.random() < 0.75:
                    lines.append("maint 0 %d" % height[0])
                    height[0] += 1
            elif r < 0.72:
                lines.append("fee %d %d" % (rng.choice([0, 1, 2, 5, 9]), rng.choice([0, 3, 7, 11])))
                if rng.random() < 0.8:
                    lines.append("maint 1 %d" % height[0])
                    height[0] += 1
            elif r < 0.86:
                # a block: some accounts' lowest nonces are included
                inc = []
                for a in range(K):
                    if rng.random() < 0.6:
                        k = rng.choice([1, 1, 1, 2, 2, 3, 5])
                        for nonce in range(cn[a], cn[a] + k):
                            if nonce in by_nonce[a] and rng.random() < 0.92:
                                inc.append(by_nonce[a][nonce])
                        lines.append("bump %d %d" % (a, k))
                        cn[a] += k
                        nn[a] = max(nn[a], cn[a])
                        if rng.random() < 0.5:
                            asset = rng.randrange(A)
                            setbal(a, asset, max(0, bal[a][asset] - rng.randint(0, 12 * k)))
                if malformed and rng.random() < 0.3:
                    inc += [rng.choice(ids), 9999]
                rng.shuffle(inc)
                lines.append("maint %d %d %s" % (1 if rng.random() < 0.15 else 0, height[0], " ".join(map(str, inc))))
                height[0] += 1
            elif r < 0.89:
                a = rng.randrange(K)
                k = rng.choice([1, 1, 2, 4])
                lines.append("bump %d %d" % (a, k))
                cn[a] += k
                nn[a] = max(nn[a], cn[a])
            elif r < 0.96:
                lines.append("rm %d" % rng.choice(ids))
            else:
                lines.append("maint %d %d" % (rng.randrange(2), height[0]))
                height[0] += 1
            if malformed and rng.random() < 0.12:
                lines.append(rng.choice([
                    "ins 9999", "insd 9998", "rm 9997",
                    "tx %d 0 0 4 0 1 0" % rng.choice(ids),             # redefinition
                    "tx %d 7 0 4 0 1 0" % (nid[0] + 500),              # account out of range
                    "tx %d 0 0 9 0 1 0" % (nid[0] + 501),              # group out of range
                    "tx %d 0 0 4 5 1 0" % (nid[0] + 502),              # asset out of range
                    "maint 0 %d 9999 9999" % height[0],
                ]))
        lines.append("maint 0 %d" % height[0])
        return lines

    def boundary_cases(self, rng):
        out = []
        # parked queue of one account filled to its limit of 15, then one more, then promotion of all
        l = ["case 40 1 1", "bal 0 0 1000"]
        for i in range(1, 18):
            l += ["tx %d 0 %d 4 0 1 0" % (i, i), "ins %d" % i]
        l += ["tx 30 0 0 4 0 1 0", "ins 30", "maint 0 5", "bal 0 0 3", "maint 0 6", "bal 0 0 500", "maint 0 7"]
        out.append(l)
        # demotion of a long pending run into a parked queue with the per-account limit (repaired F12)
        l = ["case 40 1 1", "bal 0 0 1000"]
        for i in range(0, 18):
            l += ["tx %d 0 %d 4 0 1 0" % (i + 1, i), "ins %d" % (i + 1)]
        l += ["bal 0 0 1", "maint 0 5", "bal 0 0 1000", "maint 0 6"]
        out.append(l)
        # total parked limit, two accounts (order dependent) and one account
        out.append(["case 1 2 1", "bal 0 0 10", "bal 1 0 10", "tx 1 0 0 4 0 5 0", "tx 2 0 1 4 0 5 0",
                    "tx 3 1 0 4 0 5 0", "tx 4 1 1 4 0 5 0", "ins 1", "ins 2", "ins 3", "ins 4",
                    "bal 0 0 5", "bal 1 0 5", "maint 0 3", "maint 0 4"])
        out.append(["case 1 1 1", "bal 0 0 10", "tx 1 0 0 4 0 4 0", "tx 2 0 1 4 0 3 0", "tx 3 0 2 4 0 3 0",
                    "ins 1", "ins 2", "ins 3", "bal 0 0 4", "maint 0 3", "ins 3", "ins 2", "bal 0 0 100", "maint 0 4"])
        # same nonce in pending and parked, then demotion onto the taken nonce
        out.append(["case 10 1 1", "bal 0 0 3", "tx 1 0 0 4 0 9 0", "tx 2 0 0 4 0 2 0", "ins 1", "ins 2",
                    "bal 0 0 0", "maint 0 3", "bal 0 0 50", "maint 0 4"])
        # u128 saturation of a transfer cost and a balance of u128::MAX
        out.append(["case 4 1 2", "fee 7 0", "bal 0 0 %d" % U128, "bal 0 1 9", "tx 1 0 0 4 0 %d 0" % U128,
                    "tx 2 0 1 4 0 %d 1" % U128, "tx 3 0 0 4 1 2 1", "ins 1", "ins 2", "ins 3", "maint 1 3",
                    "fee 0 0", "maint 1 4"])
        # nonces at the top of u32 (no transaction carries u32::MAX itself)
        out.append(["case 4 1 1", "bal 0 0 100", "bump 0 %d" % (U32 - 3), "tx 1 0 %d 4 0 1 0" % (U32 - 3),
                    "tx 2 0 %d 4 0 1 0" % (U32 - 2), "tx 3 0 %d 4 0 1 0" % (U32 - 1), "ins 3", "ins 1", "ins 2",
                    "maint 0 3", "bump 0 2", "maint 0 4 1 2", "bump 0 7", "maint 0 5"])
        # a transaction carrying the nonce u32::MAX (repaired F12b: accepted, nothing promoted behind it)
        out.append(["case 4 1 1", "bal 0 0 100", "bump 0 %d" % U32, "tx 1 0 %d 4 0 1 0" % U32, "insd 1", "ins 1",
                    "maint 0 3"])
        out.append(["case 4 1 1", "bal 0 0 100", "bump 0 %d" % (U32 - 1), "tx 1 0 %d 4 0 1 0" % (U32 - 1),
                    "tx 2 0 %d 4 0 1 0" % U32, "ins 2", "ins 1", "maint 0 3", "rm 2"])
        # the literal reading of "consecutive": stale entries below the shown nonce stay until maintenance
        out.append(["case 4 1 1", "bal 0 0 100", "bump 0 5", "tx 1 0 5 4 0 1 0", "ins 1", "bump 0 2",
                    "tx 2 0 7 4 0 1 0", "ins 2", "maint 0 3"])
        return out

    # ------------------------------------------------------------------ execution
    def impl(self, cases):
        text = "\n".join("\n".join(c) for c in cases) + "\n"
        return split_cases(run_harness("astria-sequencer", "mempool::verif::drive", text, "c13"))

    def model_all(self, cases, impl):
        text = "\n".join("\n".join(c) for c in cases) + "\n"
        return split_cases(run_model("c13", text))

    @staticmethod
    def strip_model(l):
        return l.split(" orderdep=", 1)[0]

    # ------------------------------------------------------------------ App-level family (monitor only)
    # The re-cost decision is taken by the App (recost flag set while a block with FeeChange / FeeAssetChange
    # executes, passed to run_maintenance after finalization), outside the Mempool the hook above drives.  These
    # cases go through the real App + mempool via the C06 hook (app::verif_c06::drive): a ready transaction that
    # the block's fee change makes unaffordable must have left the ready queue before the next proposal is built.
    @staticmethod
    def is_app_case(case):
        return case[0].startswith("case apprecost")

    def app_case(self, rng, idx):
        n = 500000 + 100 * idx
        poor = rng.randint(25, 60)
        amt = poor - rng.randint(3, 8)            # affordable with the genesis transfer fee (base 2), not with the new one
        newfee = rng.randint(12, 40)
        kinds = ["rollup", "lock", "unlock", "initbridge", "sudochange"]
        l = ["case apprecost-%d" % idx,
             "genesis acct=a0:1000000000,a1:1000000000,a2:%d,a3:1000000000 sudo=a0" % poor, "advance 4"]
        sudo_txs = ["tx r%d a0 0 feechange kind=transfer base=%d mult=0" % (n, newfee)]
        k = 0
        for k in range(rng.randint(0, 2)):       # further fee-changing transactions
            if rng.random() < 0.5:
                sudo_txs.append("tx r%d a0 %d feechange kind=%s base=%d mult=%d" % (n + 1 + k, 1 + k, rng.choice(kinds), rng.randint(1, 9), rng.randint(0, 3)))
            else:
                sudo_txs.append("tx r%d a0 %d feeasset add=s%d" % (n + 1 + k, 1 + k, 1 + k % 3))
        if idx % 4 != 3:                         # ... and a NOT fee-changing one executing last (the sudo groups execute after the general ones; unbundleable sudo last)
            m = len(sudo_txs)
            sudo_txs.append("tx r%d a0 %d ibcsudo to=a%d" % (n + 30, m, 1 + idx % 3))   # UnbundleableSudo: the last group
        if rng.random() < 0.5:                   # a general transaction (executes first: general groups come first)
            sudo_txs.append("tx r%d a3 0 transfer to=a1 amt=%d asset=s0 fee=s0" % (n + 40, rng.randint(1, 1000)))
        l += sudo_txs
        l += ["ins " + " ".join(t.split()[1] for t in sudo_txs), "prepare max=100000", "process",
              "tx r%d a2 0 transfer to=a1 amt=%d asset=s0 fee=s0" % (n + 50, amt),
              "ins r%d" % (n + 50),              # admitted as ready at the committed (old-fee) state
              "finalize",                        # commits the block; the mempool is maintained with the App's recost flag
              "prepare max=100000", "process", "finalize"]
        return l

    def app_monitor(self, case, il):
        fails = []
        poor_tx = next(l.split()[1] for l in case if " a2 0 transfer " in l)
        prepares = [l for l in il if l.startswith("prepare ")]
        queues = [l for l in il if l.startswith("queue ")]
        for l in il:
            if l.endswith(" panic") or " panic " in l:
                fails.append("app: panic %r" % l)
        if len(prepares) < 2 or not prepares[0].startswith("prepare ok") or not prepares[1].startswith("prepare ok"):
            return fails      # premise not met (nothing is demanded)
        admitted = any(l.startswith("ins %s pending" % poor_tx) for l in il)
        if not admitted:
            return fails
        q2 = queues[1].split()[1] if len(queues) > 1 and len(queues[1].split()) > 1 else "-"
        kv = dict(x.split("=", 1) for x in prepares[1].split()[2:] if "=" in x)
        if poor_tx in q2.split(",") or poor_tx in kv.get("removed", "-").split(","):
            fails.append("affordable: app: after a block that raised the transfer fee, %s (balance no longer covers amount + fee) was still "
                         "ready for the next proposal (queue=%s removed=%s)" % (poor_tx, q2, kv.get("removed")))
        return fails

    def evaluate(self, cases):
        app = [c for c in cases if self.is_app_case(c)]
        cases = [c for c in cases if not self.is_app_case(c)]
        out_app = []
        if app:
            text = "\n".join("\n".join(c) for c in app) + "\n"
            ai = split_cases(run_harness("astria-sequencer", "app::verif_c06::drive", text, "c13app", timeout=3000))
            if len(ai) != len(app):
                raise TieBroken("app harness returned %d cases for %d" % (len(ai), len(app)))
            for c, il in zip(app, ai):
                out_app.append((c, il, None, [("monitor", w) for w in self.app_monitor(c, il)]))
        if not cases:
            return out_app
        return self.evaluate_mempool(cases) + out_app

    def evaluate_mempool(self, cases):
        impl = self.impl(cases)
        if len(impl) != len(cases):
            raise TieBroken("harness returned %d cases for %d" % (len(impl), len(cases)))
        model = self.model_all(cases, impl)
        if len(model) != len(cases):
            raise RuntimeError("model returned %d cases for %d" % (len(model), len(cases)))
        out = []
        self.cuts = getattr(self, "cuts", 0)
        for c, il, ml in zip(cases, impl, model):
            fails = [("monitor", w) for w in self.monitor(c, il)]
            cut = next((i for i, l in enumerate(ml) if l.endswith("orderdep=1")), None)
            mc = [self.strip_model(l) for l in ml]
            ci = list(il)
            if cut is not None:
                mc, ci = mc[:cut], ci[:cut]
                self.cuts += 1
            if ci != mc:
                k = next((i for i, (a, b) in enumerate(zip(ci, mc)) if a != b), min(len(ci), len(mc)))
                fails.append(("correspondence", "model and implementation differ at step %d: impl=%r model=%r" % (
                    k, ci[k] if k < len(ci) else None, mc[k] if k < len(mc) else None)))
            out.append((c, il, ml, fails))
        return out

    # ------------------------------------------------------------------ monitor
    def monitor(self, case, il):
        """C13's conclusions evaluated on the implementation's observations alone."""
        fails = []
        hdr = case[0].split()
        pmax, K = int(hdr[1]), int(hdr[2])
        defs = {}                       # id -> (acct, nonce, group)
        chain_nonce = [0] * K
        chain_bal = [dict() for _ in range(K)]
        shown_nonce = [None] * K
        shown_bal = [None] * K
        live = set()
        prev = None
        for step, line in enumerate(il):
            if step == 0:
                continue
            ops, res, d = parse(line)
            op = ops[0]
            if op == "tx" and res and res.startswith("group"):
                defs[ops[1]] = (int(ops[2]), int(ops[3]), int(res[5:]))
            elif op == "bump" and res and res.isdigit():
                chain_nonce[int(ops[1])] = int(res)
            elif op == "bal" and int(ops[1]) < K:
                chain_bal[int(ops[1])][int(ops[2])] = int(ops[3])
            elif op in ("ins", "insd") and ops[1] in defs:
                a = defs[ops[1]][0]
                if res in ("pending", "parked") or res.startswith("err:"):
                    shown_nonce[a] = chain_nonce[a]          # Mempool::insert was called with this nonce
                if res == "pending":
                    shown_bal[a] = dict(chain_bal[a])
                if res in ("pending", "parked"):
                    live.add(ops[1])
                if res.startswith("removed:"):
                    live.discard(ops[1])                     # reported to the caller with its reason
            elif op == "maint" and prev is not None:
                present = {e[0] for e in entries(prev["pend"]) + entries(prev["park"])}
                for a in present:
                    if isinstance(a, int) and a < K:
                        shown_nonce[a] = chain_nonce[a]
                        shown_bal[a] = dict(chain_bal[a])
            pend, park = entries(d["pend"]), entries(d["park"])
            st = dict(x.split(":", 1) for x in d["st"].split(",") if x)
            tag = "step=%d op=%s" % (step, " ".join(ops[:2]))
            # -- exactly one place
            allids = [e[2] for e in pend + park]
            dup = {i for i in allids if allids.count(i) > 1}
            if dup:
                fails.append("duplicate: %s ids %s held more than once in pending/parked" % (tag, sorted(dup)))
            pids, kids = {e[2] for e in pend}, {e[2] for e in park}
            for i, s in st.items():
                want = "P" if i in pids else ("K" if i in kids else None)
                if (s in ("P", "K")) != (want is not None) or (want is not None and s != want):
                    fails.append("place: %s id=%s status %s but held in %s" % (
                        tag, i, s, {"P": "pending", "K": "parked", None: "no container"}[want]))
            for i in sorted(live):
                if st.get(i) == "N":
                    fails.append("lost: %s id=%s accepted, never reported as removed, now in no place and without a removal reason" % (tag, i))
                    live.discard(i)
            # -- ready transactions: consecutive from the shown nonce, jointly affordable
            for a in range(K):
                mine = [e for e in pend if e[0] == a]
                nonces = {e[1] for e in mine}
                if mine and shown_nonce[a] is not None:
                    for n in sorted(nonces):
                        if n > shown_nonce[a] and n - 1 not in nonces:
                            fails.append("consecutive: %s account %d pending nonces %s, shown nonce %d" % (
                                tag, a, sorted(nonces), shown_nonce[a]))
                            break
                if mine and shown_bal[a] is not None:
                    tot = Counter()
                    for e in mine:
                        tot.update(e[3])
                    for asset, c in tot.items():
                        if c > shown_bal[a].get(asset, 0):
                            fails.append("affordable: %s account %d pending costs %d of asset %d exceed the shown balance %d" % (
                                tag, a, c, asset, shown_bal[a].get(asset, 0)))
                            break
            # -- block-building order
            seen = {}
            for i in (x for x in d["q"].split(",") if x):
                if i in defs:
                    a, n, g = defs[i]
                    if (a, g) in seen and seen[(a, g)] > n:
                        fails.append("order: %s queue %s places nonce %d of account %d group %d after nonce %d" % (
                            tag, d["q"], n, a, g, seen[(a, g)]))
                        break
                    seen[(a, g)] = max(seen.get((a, g), -1), n)
            # -- after maintenance
            if op == "maint" and res == "ok":
                for e in pend + park:
                    if isinstance(e[0], int) and e[0] < K and e[1] is not None and e[1] < chain_nonce[e[0]]:
                        fails.append("stale: %s id=%s nonce %d < chain nonce %d remains after maintenance" % (
                            tag, e[2], e[1], chain_nonce[e[0]]))
                if len(park) > pmax:
                    fails.append("limit: %s %d parked transactions > total limit %d" % (tag, len(park), pmax))
                for a in range(K):
                    if sum(1 for e in park if e[0] == a) > PER_ACCOUNT:
                        fails.append("limit: %s account %d has more than %d parked transactions" % (tag, a, PER_ACCOUNT))
            prev = d
        return fails

    # ------------------------------------------------------------------ evidence helpers
    def nontrivial(self, case, il):
        if self.is_app_case(case):
            return any(l.startswith("prepare ok") for l in il)
        prev = {}
        for l in il[1:]:
            ops, res, d = parse(l)
            st = dict(x.split(":", 1) for x in d.get("st", "").split(",") if x)
            for i, s in st.items():
                p = prev.get(i, "N")
                if p != s and not (ops[0] in ("ins", "insd") and ops[1] == i and p == "N"):
                    return True
            prev = st
        return False

    def stats(self, cases, impl):
        pairs = [(c, il) for c, il in zip(cases, impl) if not self.is_app_case(c)]
        n_app = len(cases) - len(pairs)
        cases, impl = [c for c, _ in pairs], [il for _, il in pairs]
        r = self._stats_mempool(cases, impl)
        r["app_level_recost_cases"] = n_app
        return r

    def _stats_mempool(self, cases, impl):
        c = Counter()
        for il in impl:
            prev = {}
            for l in il[1:]:
                ops, res, d = parse(l)
                c["op_" + ops[0]] += 1
                if ops[0] in ("ins", "insd"):
                    key = res
                    if res.startswith("removed:"):
                        key = "removed_" + res.split(":")[1].rstrip("0123456789")
                    c["%s_%s" % (ops[0], key)] += 1
                st = dict(x.split(":", 1) for x in d.get("st", "").split(",") if x)
                for i, s in st.items():
                    p = prev.get(i, "N")
                    if p == "K" and s == "P":
                        c["promotions"] += 1
                    elif p == "P" and s == "K":
                        c["demotions"] += 1
                    elif p in ("P", "K") and s.startswith("R"):
                        c["removed_" + s[1:].rstrip("0123456789")] += 1
                    elif p in ("P", "K") and s == "N":
                        c["vanished"] += 1
                prev = st
                c["max_parked"] = max(c["max_parked"], len(entries(d.get("park", ""))))
                c["max_pending"] = max(c["max_pending"], len(entries(d.get("pend", ""))))
        c["orderdep_cuts"] = getattr(self, "cuts", 0)
        return dict(c)


CHECK = C13()
