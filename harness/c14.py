"""C14 — validator set mirror: model (coq/theories/Validators) vs crates/astria-sequencer.

Script language = the sequencer app harness (harness/notes/sequencer_app_harness.md) driven through
`app::verif_c14::drive`, which adds
  vdump            -> vdump era=<pre|post> count=<n|-> set=<key:power:name,...|-> upd=<key:power,...|->
  checktx <id>     -> real CheckTx (service::mempool::check_tx) into the app's mempool
  propose          -> real prepare_proposal / process_proposal / finalize_block / commit (proposer's path);
                      prints `queue <ids>`, `included <ids>`, `block height=.. vupdates=..`
  validate         -> prepare_proposal, then process_proposal on a fresh execution state (what a validator
                      that is not the proposer does); informational, not part of the model
Cases use: case, genesis, tx (valupdate actions only), block, vdump, checktx, propose, validate.
"""
import json
import os
from collections import Counter
from concurrent.futures import ThreadPoolExecutor

from common import CaseCheck, VERIF, cargo_build, run_harness, run_model, split_cases

CRATE = "astria-sequencer"
TEST = "app::verif_c14::drive"

F6A = ("F6a post-Aspen, proposer's path: a block whose executed actions add a key that is not in the stored set "
       "and remove it again returns `key -> 0` to CometBFT, which does not have that key "
       "(ValidatorUpdate::execute records the removal in the block's update set although the addition it cancels "
       "was never reported; checked_actions/validator_update.rs:159-166). Needs transactions constructed before "
       "the block (mempool); validators which are not the proposer reject such a proposal.")
F6B = ("F6b pre-Aspen: a block that removes every validator of a set of two or more passes the "
       "last-validator check (it reads the stored set, which is only updated in end_block; "
       "checked_actions/validator_update.rs:85-96) and returns updates which empty CometBFT's validator set; "
       "the stored set becomes empty.")


# ------------------------------------------------------------------------------------------ parsing

def kname(k):
    return "a%d" % k


def kidx(tok):
    return int(tok[1:])


def parse_actions(tokens):
    """tokens after `tx id signer nonce` -> list of (key, power, name)"""
    acts, cur = [], []
    for t in tokens + [";"]:
        if t == ";":
            if cur:
                if cur[0] != "valupdate":
                    return None
                kv = dict(x.split("=", 1) for x in cur[1:] if "=" in x)
                try:
                    acts.append((kidx(kv["key"]), int(kv["power"]), kv.get("name", "-")))
                except (KeyError, ValueError):
                    return None
            cur = []
        else:
            cur.append(t)
    return acts


def parse_genesis(line):
    kv = dict(x.split("=", 1) for x in line.split()[1:] if "=" in x)
    vals = {}
    for e in kv.get("vals", "a0:10,a1:10,a2:10").split(","):
        k, p = e.split(":")
        vals[kidx(k)] = int(p)
    return {"vals": vals, "sudo": kidx(kv.get("sudo", "a0")), "aspen": int(kv.get("aspen", "1"))}


def parse_updates(tok):
    """`a1:0,a7:5` -> [(1, 0), (7, 5)] (order kept), `-` -> []"""
    if tok in ("-", ""):
        return []
    out = []
    for e in tok.split(","):
        k, p = e.split(":")[:2]
        out.append((kidx(k), int(p)))
    return out


def kvs(line):
    return dict(x.split("=", 1) for x in line.split()[1:] if "=" in x)


def last_power(k, acts):
    p = None
    for (ak, ap, _) in acts:
        if ak == k:
            p = ap
    return p


def walk(case, il):
    """Align a case's script with the implementation's lines.  Yields one record per block
    (dict: height, mode, era, start (stored set of the previous vdump, or None), acts (actions of the
    successfully executed txs, script order), batch, line) — implementation observations plus the
    script's tx definitions only."""
    gen = None
    txs = {}
    for l in case:
        t = l.split()
        if not t:
            continue
        if t[0] == "genesis":
            gen = parse_genesis(l)
        elif t[0] == "tx" and len(t) >= 5:
            a = parse_actions(t[4:])
            if a is not None:
                txs[t[1]] = a
    blocks = []
    last_set = None
    ok_ids = []
    included = None
    for l in il:
        t = l.split()
        if not t:
            continue
        if t[0] == "vdump" and len(t) > 1 and "=" in t[1]:
            kv = kvs(l)
            last_set = {}
            if kv.get("set", "-") != "-":
                for e in kv["set"].split(","):
                    k, p = e.split(":")[:2]
                    last_set[kidx(k)] = int(p)
        elif t[0] == "txres" and len(t) >= 3:
            if t[2] == "code=0":
                ok_ids.append(t[1])
        elif t[0] == "included" and len(t) >= 2:
            included = [] if t[1] == "-" else t[1].split(",")
        elif t[0] in ("block", "end") and len(t) > 1 and t[1].startswith("height="):
            kv = kvs(l)
            h = int(kv["height"])
            ids = included if included is not None else ok_ids
            acts = []
            for i in ids:
                acts += txs.get(i, [])
            era = "post" if gen and gen["aspen"] != 0 and h >= gen["aspen"] else "pre"
            blocks.append({"height": h, "mode": "propose" if included is not None else "finalize", "era": era,
                           "start": last_set, "acts": acts, "batch": parse_updates(kv.get("vupdates", "-")),
                           "line": l})
            ok_ids, included, last_set = [], None, None
        elif t[0] in ("block", "propose") and len(t) > 1 and t[1].startswith("err="):
            ok_ids, included = [], None
    return gen, blocks


def known_a(blk):
    if blk["era"] != "post" or blk["start"] is None:
        return []
    return sorted({k for (k, _, _) in blk["acts"] if k not in blk["start"] and last_power(k, blk["acts"]) == 0})


def known_b(blk):
    if blk["era"] != "pre" or not blk["start"]:
        return False
    return all(last_power(k, blk["acts"]) == 0 for k in blk["start"]) and \
        all(last_power(k, blk["acts"]) == 0 for (k, _, _) in blk["acts"])


# ------------------------------------------------------------------------------------------ generator's simulator

class Sim:
    """Reference semantics used ONLY to generate meaningful scripts (nonces, which keys exist)."""

    def __init__(self, vals, sudo, aspen_h):
        self.aspen = False
        self.vals = dict(vals)
        self.count = None
        self.upds = {}
        self.sudo = sudo
        self.nonces = {}
        self.height = 0
        self.aspen_h = aspen_h

    def snap(self):
        return (self.aspen, dict(self.vals), self.count, dict(self.upds), dict(self.nonces))

    def restore(self, s):
        self.aspen, self.vals, self.count, self.upds, self.nonces = s[0], dict(s[1]), s[2], dict(s[3]), dict(s[4])

    def check(self, signer, a):
        k, p, _ = a
        if signer != self.sudo:
            return "auth"
        if not self.aspen:
            if p == 0:
                if k not in self.vals:
                    return "missing"
                if len(self.vals) == 1:
                    return "other"
            return None
        if p == 0:
            if not self.count > 1:
                return "other"
            if k not in self.vals:
                return "missing"
        return None

    def construct_ok(self, tx):
        signer, nonce, acts = tx
        if nonce < self.nonces.get(signer, 0):
            return False
        return all(self.check(signer, a) is None for a in acts)

    def exec_tx(self, tx):
        signer, nonce, acts = tx
        if nonce != self.nonces.get(signer, 0):
            return False
        s = self.snap()
        self.nonces[signer] = nonce + 1
        for a in acts:
            if self.check(signer, a) is not None:
                self.restore(s)
                return False
            k, p, _ = a
            if self.aspen:
                if p == 0:
                    del self.vals[k]
                    self.count -= 1
                else:
                    if k not in self.vals:
                        self.count += 1
                    self.vals[k] = p
            self.upds[k] = p
        return True

    def begin(self):
        self.height += 1
        if self.aspen_h == self.height:
            self.aspen = True
            self.count = len(self.vals)

    def end(self):
        if not self.aspen:
            for k, p in self.upds.items():
                if p == 0:
                    self.vals.pop(k, None)
                else:
                    self.vals[k] = p
        self.upds = {}


class Gen:
    def __init__(self, rng, label):
        self.rng = rng
        self.lines = ["case " + label]
        self.ntx = 0
        self.nname = 0

    def name(self):
        # a fresh name per action keeps every tx's bytes (hence its id in the mempool) unique
        self.nname += 1
        return "n%d" % self.nname

    def tx(self, signer, nonce, acts):
        self.ntx += 1
        tid = "t%d" % self.ntx
        body = " ; ".join("valupdate key=%s power=%d name=%s" % (kname(k), p, n) for (k, p, n) in acts)
        self.lines.append("tx %s %s %d %s" % (tid, kname(signer), nonce, body))
        return tid

    def genesis(self, vals, sudo, aspen):
        bb = 0 if aspen == 0 else self.rng.choice([0, aspen + 1, aspen + 2, aspen + 3])
        self.lines.append("genesis vals=%s sudo=%s aspen=%d blackburn=%d" % (
            ",".join("%s:%d" % (kname(k), p) for k, p in vals), kname(sudo), aspen, bb))
        self.lines.append("vdump")


KEYS = list(range(0, 12))
SIGNERS = [0, 1, 2, 3, 4, 5]          # genesis accounts with funds


def pick_power(rng):
    return rng.choice([1, 1, 2, 3, 5, 7, 10, 10, 20, 50, 100, 1000, 4294967295])


def gen_actions(rng, sim, g, n_updates):
    """n_updates actions chosen against the simulator's current view"""
    acts = []
    view = dict(sim.vals)       # keys believed present while the block is being assembled
    for _ in range(n_updates):
        present = sorted(view)
        absent = [k for k in KEYS if k not in view]
        r = rng.random()
        if r < 0.30 and absent:
            k = rng.choice(absent)
            p = pick_power(rng)
            acts.append((k, p, g.name()))
            view[k] = p
        elif r < 0.45 and present:
            k = rng.choice(present)
            p = pick_power(rng)
            acts.append((k, p, g.name()))
            view[k] = p
        elif r < 0.80 and present:
            k = rng.choice(present)
            acts.append((k, 0, g.name()))
            view.pop(k, None)
        elif r < 0.88 and absent:
            acts.append((rng.choice(absent), 0, g.name()))            # remove unknown
        elif r < 0.95 and acts:
            k = rng.choice(acts)[0]                                      # repeated key
            p = rng.choice([0, pick_power(rng)])
            acts.append((k, p, g.name()))
            if p == 0:
                view.pop(k, None)
            else:
                view[k] = p
        else:
            k = rng.choice(KEYS)
            acts.append((k, rng.choice([0, pick_power(rng)]), g.name()))
    return acts


def group(rng, acts):
    """split a list of actions into txs of 1..3 actions"""
    out = []
    i = 0
    while i < len(acts):
        n = rng.choice([1, 1, 1, 1, 2, 2, 3])
        out.append(acts[i:i + n])
        i += n
    return out


def random_case(rng, label, malformed=False):
    g = Gen(rng, label)
    nv = rng.choice([1, 2, 2, 2, 3, 3, 4, 5]) if malformed else rng.choice([2, 2, 2, 3, 3, 4, 5])
    keys = rng.sample(KEYS[:8], nv)
    vals = [(k, rng.choice([1, 5, 10, 10, 20, 100])) for k in keys]
    sudo = rng.choice([0, 0, 0, 0, 1, 3, 5])
    era = rng.random()
    aspen = 1 if era < 0.5 else (rng.randint(2, 6) if era < 0.85 else 0)
    g.genesis(vals, sudo, aspen)
    sim = Sim(dict(vals), sudo, aspen)
    for _ in range(rng.randint(1, 8)):
        propose = rng.random() < 0.3
        n_updates = rng.choice([0, 1, 1, 2, 2, 3, 4])
        # special shapes
        shape = rng.random()
        acts = None
        present = sorted(sim.vals)
        absent = [k for k in KEYS if k not in sim.vals]
        if shape < 0.10 and absent:                                       # add-then-remove of a new key
            k = rng.choice(absent)
            acts = [(k, pick_power(rng), g.name()), (k, 0, g.name())]
        elif shape < 0.20 and len(present) >= 2:                           # remove-then-add
            k = rng.choice(present)
            acts = [(k, 0, g.name()), (k, pick_power(rng), g.name())]
        elif shape < 0.32 and len(present) >= 2:                           # remove down to one / all
            ks = list(present)
            rng.shuffle(ks)
            keep = rng.choice([0, 0, 1, 1, 1])
            acts = [(k, 0, g.name()) for k in ks[:len(ks) - keep]][:4]
        elif shape < 0.38 and len(present) == 1:                           # attempt to remove the last
            acts = [(present[0], 0, g.name())]
            if rng.random() < 0.5 and absent:
                acts = [(rng.choice(absent), pick_power(rng), g.name())] + acts
        if acts is None:
            acts = gen_actions(rng, sim, g, n_updates)
        txs = group(rng, acts)
        start = sim.snap()
        start_nonces = dict(sim.nonces)
        sim.begin()
        ids = []
        if not propose:
            # finalize path: constructed against the committed state, executed in order
            committed = Sim(dict(start[1]), sim.sudo, sim.aspen_h)
            committed.restore(start)
            for ta in txs:
                signer = sim.sudo
                r = rng.random()
                if malformed and r < 0.25:
                    signer = rng.choice([s for s in SIGNERS if s != sim.sudo])
                elif r < 0.04:
                    signer = rng.choice([s for s in SIGNERS if s != sim.sudo])
                nonce = sim.nonces.get(signer, 0)
                r = rng.random()
                if (malformed and r < 0.15) or r < 0.03:
                    nonce = max(0, nonce + rng.choice([-1, 1, 2]))
                tid = g.tx(signer, nonce, ta)
                ids.append(tid)
                t = (signer, nonce, ta)
                if committed.construct_ok(t):
                    sim.exec_tx(t)
            if malformed and rng.random() < 0.2 and ids:
                ids.insert(rng.randrange(len(ids) + 1), "nosuchtx")
            g.lines.append("block " + " ".join(ids))
        else:
            # proposer's path: CheckTx against the committed state, consecutive nonces
            committed = Sim(dict(start[1]), sim.sudo, sim.aspen_h)
            committed.restore(start)
            nxt = dict(start_nonces)
            for ta in txs:
                signer = sim.sudo
                if rng.random() < (0.2 if malformed else 0.04):
                    signer = rng.choice([s for s in SIGNERS if s != sim.sudo])
                nonce = nxt.get(signer, 0)
                tid = g.tx(signer, nonce, ta)
                g.lines.append("checktx " + tid)
                t = (signer, nonce, ta)
                if committed.construct_ok(t):
                    nxt[signer] = nonce + 1
                    sim.exec_tx(t)
            if rng.random() < 0.15:
                g.lines.append("validate")
            g.lines.append("propose")
        sim.end()
        g.lines.append("vdump")
    return g.lines


def scenario_stale(rng, label):
    """Transactions constructed (CheckTx) while a key exists, executed by a proposer after it is gone
    and re-added: the shape that reaches class A, and its harmless neighbours."""
    g = Gen(rng, label)
    nv = rng.choice([1, 2, 3])
    keys = rng.sample(KEYS[:6], nv)
    vals = [(k, rng.choice([5, 10, 20])) for k in keys]
    sudo = rng.choice([0, 0, 1])
    aspen = rng.choice([1, 1, 2, 3])
    g.genesis(vals, sudo, aspen)
    n = 0
    for _ in range(aspen - 1):
        g.lines += ["block", "vdump"]
    k = rng.choice([x for x in KEYS if x not in keys])
    t = g.tx(sudo, n, [(k, pick_power(rng), g.name())])
    g.lines += ["block " + t, "vdump"]
    n += 1
    variant = rng.choice(["a", "a", "readd", "other", "bundle"])
    t_rm1 = g.tx(sudo, n, [(k, 0, g.name())])
    g.lines.append("checktx " + t_rm1)
    if variant == "bundle":
        t_late = g.tx(sudo, n + 2, [(k, 0, g.name()), (rng.choice(keys), rng.choice([3, 30]), g.name())])
    elif variant == "other":
        t_late = g.tx(sudo, n + 2, [(k, pick_power(rng), g.name())])
    else:
        t_late = g.tx(sudo, n + 2, [(k, 0, g.name())])
    g.lines.append("checktx " + t_late)                      # parked: nonce gap
    g.lines += ["propose", "vdump"]                            # block: remove k
    k2 = k if variant != "other" else rng.choice([x for x in KEYS if x not in keys and x != k])
    t_add = g.tx(sudo, n + 1, [(k2, pick_power(rng), g.name())])
    g.lines.append("checktx " + t_add)
    if variant == "readd":
        t4 = g.tx(sudo, n + 3, [(k, pick_power(rng), g.name())])
        g.lines.append("checktx " + t4)
    if rng.random() < 0.5:
        g.lines.append("validate")
    g.lines += ["propose", "vdump"]
    for _ in range(rng.randint(0, 2)):
        t = g.tx(sudo, 99, [(rng.choice(KEYS), 1, g.name())])  # never executes (nonce)
        g.lines += ["block " + t, "vdump"]
    return g.lines


# ------------------------------------------------------------------------------------------ the check

class C14(CaseCheck):
    pid = "C14"
    rule = ("seeded histories on the real App: 2-5 genesis validators (1 in the malformed stream), sudo a0..a5, "
            "Aspen at height 1 / 2..6 / never, 1-8 blocks of 0-4 validator updates grouped into txs of 1-3 actions "
            "(add new, change power, remove, add-then-remove, remove-then-add, repeated keys, remove down to one / "
            "all, remove the last, remove unknown, power u32::MAX), 70% blocks through finalize_block, 30% through "
            "CheckTx + prepare/process_proposal + finalize_block (proposer's path), scenario cases with transactions "
            "parked in the mempool across a removal; malformed stream: non-sudo signers, wrong nonces, unknown and "
            "repeated tx ids; `vdump` after genesis and after every block. non-trivial = at least two returned "
            "validator updates in the case; distinct = distinct script text")
    assumptions = [
        "CometBFT's rule for applying a batch (no duplicate keys, no removal of an unknown key, result not empty) "
        "is taken from CometBFT's documentation of ValidatorSet.UpdateWithChangeSet; CometBFT is not in the repository",
        "no misbehaviour evidence (the property excludes it); the H+2 activation delay of CometBFT is ignored as in the property text",
        "the mempool is not modelled: the builder queue observed on the implementation is an input of the model's proposer blocks",
        "fees are not modelled: every signer has funds for the ValidatorUpdate fee",
        "size_ok (theorem hypothesis): fewer than 2^64-1 validators ever exist (the count saturates there)",
    ]

    # ---- generation
    def gen(self, rng, tier):
        n = 80 if tier == "quick" else 2400
        cases = []
        for i in range(n):
            r = rng.random()
            if r < 0.70:
                cases.append(random_case(rng, "h%d" % i))
            elif r < 0.85:
                cases.append(random_case(rng, "m%d" % i, malformed=True))
            else:
                cases.append(scenario_stale(rng, "s%d" % i))
        return cases

    # ---- implementation
    def impl(self, cases):
        cargo_build()
        jobs = max(1, min(int(os.environ.get("VERIF_JOBS", "12")), len(cases)))
        shards = [cases[i::jobs] for i in range(jobs)]

        def run(arg):
            i, shard = arg
            if not shard:
                return []
            text = "\n".join("\n".join(c) for c in shard) + "\n"
            return split_cases(run_harness(CRATE, TEST, text, "c14-%d" % i, timeout=3000))
        with ThreadPoolExecutor(max_workers=jobs) as ex:
            outs = list(ex.map(run, enumerate(shards)))
        res = [None] * len(cases)
        for i, out in enumerate(outs):
            idxs = list(range(i, len(cases), jobs))
            if len(out) != len(idxs):
                return []          # reported by the caller as a broken tie
            for j, o in zip(idxs, out):
                res[j] = o
        return res

    # ---- model
    def model_all(self, cases, impl):
        scripts = []
        for c, il in zip(cases, impl):
            # the mempool's builder queue, per `propose`, as observed
            queues = []
            for l in il:
                t = l.split()
                if t and t[0] == "queue" and len(t) > 1:
                    queues.append(t[1])
                elif t and t[0] == "propose" and len(t) > 1:
                    queues.append(None)
            qi = 0
            lines = []
            for l in c:
                t = l.split()
                if t and t[0] == "propose":
                    q = queues[qi] if qi < len(queues) else None
                    qi += 1
                    lines.append("propose " + q if q is not None else "propose")
                else:
                    lines.append(l)
            scripts.append(lines)
        text = "\n".join("\n".join(s) for s in scripts) + "\n"
        model = split_cases(run_model("c14", text))
        if len(model) != len(cases):
            return [["model returned %d cases for %d" % (len(model), len(cases))]] * len(cases)
        out = []
        for ml, il in zip(model, impl):
            ci = self.canon(il)
            fixed = []
            for k, m in enumerate(ml):
                # construction reports whichever failing action's state reads finish first
                i = ci[k] if k < len(ci) else None
                for key in (" constructerr=", " failed="):
                    if i and key in m and key in i and m.split(key)[0] == i.split(key)[0] and \
                            i.split(key)[1] in m.split(key)[1].split("|"):
                        m = i
                fixed.append(m)
            out.append(fixed)
        return out

    def canon(self, lines):
        out = []
        for l in lines:
            t = l.split()
            if not t:
                continue
            if t[0] == "validate":
                continue
            if t[0] == "tx" and len(t) >= 3 and t[2].startswith("len="):
                out.append("tx %s ok" % t[1])
            elif t[0] == "block" and len(t) > 1 and t[1].startswith("height="):
                kv = kvs(l)
                ups = sorted(parse_updates(kv.get("vupdates", "-")))
                out.append("block height=%s vupdates=%s" % (
                    kv["height"], ",".join("%s:%d" % (kname(k), p) for k, p in ups) if ups else "-"))
            elif t[0] == "checktx" and len(t) >= 3 and t[2].startswith("rejected="):
                out.append("checktx %s ok" % t[1])
            else:
                out.append(l)
        return out

    # ---- the property on the implementation's observations alone
    def monitor(self, case, il):
        fails = []
        gen = None
        for l in case:
            if l.startswith("genesis"):
                try:
                    gen = parse_genesis(l)
                except (ValueError, KeyError):
                    gen = None
                break
        if gen is None or "genesis ok" not in il:
            return fails
        lenient = dict(gen["vals"])         # all returned batches applied without validation
        strict = dict(gen["vals"])          # CometBFT's set under its own rule; None once a batch was refused
        height = 0
        for l in il:
            t = l.split()
            if not t:
                continue
            if t[0] in ("block", "end") and len(t) > 1 and t[1].startswith("height="):
                kv = kvs(l)
                height = int(kv["height"])
                era = "post-Aspen" if gen["aspen"] != 0 and height >= gen["aspen"] else "pre-Aspen"
                batch = parse_updates(kv.get("vupdates", "-"))
                for k, p in batch:
                    if p == 0:
                        lenient.pop(k, None)
                    else:
                        lenient[k] = p
                if strict is not None and batch:
                    keys = [k for k, _ in batch]
                    dup = sorted({k for k in keys if keys.count(k) > 1})
                    unknown = sorted(k for k, p in batch if p == 0 and k not in strict)
                    if dup:
                        fails.append("inapplicable: block %d (%s) returns two updates for %s" % (
                            height, era, ",".join(map(kname, dup))))
                        strict = None
                    elif unknown:
                        fails.append("inapplicable: block %d (%s) removes %s which CometBFT's set does not have (updates %s)" % (
                            height, era, ",".join(map(kname, unknown)), kv.get("vupdates")))
                        strict = None
                    else:
                        new = dict(strict)
                        for k, p in batch:
                            if p == 0:
                                new.pop(k, None)
                            else:
                                new[k] = p
                        if not new:
                            fails.append("inapplicable: block %d (%s) empties CometBFT's validator set (updates %s)" % (
                                height, era, kv.get("vupdates")))
                            strict = None
                        else:
                            strict = new
            elif t[0] == "vdump" and len(t) > 1 and "=" in t[1]:
                kv = kvs(l)
                entries = [] if kv.get("set", "-") == "-" else [e.split(":") for e in kv["set"].split(",")]
                stored = {}
                for e in entries:
                    k = kidx(e[0])
                    if k in stored:
                        fails.append("mirror: validator %s is stored twice after block %d" % (e[0], height))
                    stored[k] = int(e[1])
                if stored != lenient:
                    fails.append("mirror: after block %d the application stores {%s} but the updates it returned give {%s}" % (
                        height, fmt(stored), fmt(lenient)))
                    lenient = dict(stored)      # report each drift once
                cnt = kv.get("count", "-")
                if cnt != "-" and int(cnt) != len(stored):
                    fails.append("count: after block %d the stored validator count is %s but %d validators are stored" % (
                        height, cnt, len(stored)))
                if cnt == "-" and kv.get("era") == "post":
                    fails.append("count: after block %d (post-Aspen) no validator count is stored" % height)
        return fails

    def classify(self, what, case, il):
        """F6a / F6b: exactly the two input classes of ValidatorsModel.known_a / known_b, evaluated on
        the script's tx definitions and the implementation's own observations."""
        if not what.startswith("inapplicable: block "):
            return None
        try:
            h = int(what.split()[2])
        except ValueError:
            return None
        gen, blocks = walk(case, il)
        blk = next((b for b in blocks if b["height"] == h), None)
        if blk is None:
            return None
        # it must be the first refused batch of the case (later ones are meaningless)
        if " removes " in what and " which CometBFT's set does not have" in what:
            ks = known_a(blk)
            named = [kidx(x) for x in what.split(" removes ")[1].split()[0].split(",")]
            if ks and all(k in ks for k in named):
                return self.finding("F6a", F6A)
        if " empties CometBFT's validator set" in what and known_b(blk):
            return self.finding("F6b", F6B)
        return None

    @staticmethod
    def finding(fid, default):
        try:
            for f in json.load(open(os.path.join(VERIF, "known_findings.json")))["findings"]:
                if f.get("property") == "C14" and f.get("id") == fid and f.get("status") == "known":
                    return f["what"]
        except (OSError, ValueError, KeyError):
            pass
        return default

    # ---- evidence
    def nontrivial(self, case, il):
        n = 0
        for l in il:
            t = l.split()
            if t and t[0] == "block" and len(t) > 1 and t[1].startswith("height="):
                n += len(parse_updates(kvs(l).get("vupdates", "-")))
        return n >= 2

    def stats(self, cases, impl):
        c = Counter()
        for case, il in zip(cases, impl):
            gen, blocks = walk(case, il)
            if gen is None:
                c["no_genesis"] += 1
                continue
            c["aspen_%s" % ("1" if gen["aspen"] == 1 else "never" if gen["aspen"] == 0 else "later")] += 1
            eras = {b["era"] for b in blocks}
            if eras == {"pre", "post"}:
                c["cases_crossing_migration"] += 1
            for b in blocks:
                c["blocks_%s_%s" % (b["mode"], b["era"])] += 1
                c["updates_returned"] += len(b["batch"])
                c["removals_returned"] += sum(1 for _, p in b["batch"] if p == 0)
                if b["height"] == gen["aspen"]:
                    c["migration_blocks"] += 1
                    if b["batch"]:
                        c["migration_blocks_with_updates"] += 1
                if known_a(b):
                    c["class_a_blocks"] += 1
                if known_b(b):
                    c["class_b_blocks"] += 1
                ks = [k for k, _, _ in b["acts"]]
                if len(set(ks)) < len(ks):
                    c["blocks_with_repeated_key"] += 1
            for l in il:
                t = l.split()
                if t[0] == "txres" and len(t) > 2:
                    kind, _, val = t[2].partition("=")
                    c["txres_" + kind + ("" if kind in ("code", "unknown") else "_" + val)] += 1
                elif t[0] == "checktx" and len(t) > 2:
                    c["checktx_" + t[2].split("=")[0]] += 1
                elif t[0] == "validate":
                    c["validate_" + l.split("result=")[-1].split("=")[0]] += 1
                elif t[0] in ("block", "propose") and len(t) > 1 and t[1].startswith("err="):
                    c["block_errors"] += 1
                elif len(t) > 1 and t[-1] in ("panic", "parseerr"):
                    c[t[-1]] += 1
            if len(blocks) and sum(1 for b in blocks if len(b["start"] or {}) == 1) > 0:
                c["cases_reaching_one_validator"] += 1
        return dict(c)


def fmt(d):
    return ",".join("%s:%d" % (kname(k), d[k]) for k in sorted(d))


CHECK = C14()
