"""C09 — conductor firm-block acceptance: model (coq/theories/Quorum) vs
crates/astria-conductor/src/celestia/{block_verifier,verify,convert,reconstruct}.rs through the
in-crate harness celestia/verif.rs (grammar: see harness notes in DESIGN.md 4/C09)."""
import re
from collections import Counter

from common import CaseCheck, run_harness, run_model, split_cases

U64 = 2 ** 64 - 1
I63 = 2 ** 63 - 1

SIGKIND = {"g": "v", "f": "i", "w": "i", "c": "i", "e": "m"}


def model_sigs(sigs):
    out = []
    for e in sigs.split(","):
        if not e or e == "-":
            continue
        who, kind = e[:-1], e[-1]
        addr = "999" if who == "x" else who
        if kind == "a":
            out.append("a")
        elif kind == "n":
            out.append("n")
        else:
            out.append("%s:%s" % (addr, SIGKIND[kind]))
    return ",".join(out) or "-"


def sort_rb(lines):
    """reconstructed blocks come out of a HashMap: compare them as a sorted run"""
    out, run = [], []
    for l in lines:
        if l.startswith("rb "):
            run.append(l)
        else:
            out += sorted(run)
            run = []
            out.append(l)
    return out + sorted(run)


def kvs(line):
    return dict(t.split("=", 1) for t in line.split()[1:] if "=" in t)


class C09(CaseCheck):
    pid = "C09"
    rule = ("(a) ensure_commit_has_quorum on generated validator sets (1-7 validators, powers chosen so that total mod 3 sweeps 0,1,2, "
            "boundary committed power floor(2t/3)-1..+1, near-u64 powers) with real ed25519 keys and commits containing good/absent/nil/"
            "forged/empty/wrong-block/wrong-chain/duplicated/unknown-validator signatures; (b) the full firm pipeline decode -> "
            "verify_metadata (mock CometBFT RPC) -> reconstruct on honest blocks plus single tamperings of metadata (hash, chain id, height), "
            "rollup data (flip/drop/dup/swap/append, re-attribution to another rollup or block), proofs (index/size/path) and garbage blobs; "
            "non-trivial = a commit case at the 2/3 boundary or with a non-good signature, or a pipeline case with a tampering; distinct = script text")
    assumptions = ["ed25519 verification is abstract in the model (a signature is Valid/Invalid/Missing for the key the set lists)",
                   "protobuf/brotli well-formedness and the Merkle audit verdict of each blob entry are inputs of the pipeline model "
                   "(computed by the check from the kind of tampering; the Merkle audit itself is C08)",
                   "RPC transport, rate limiting and the moka cache are not modelled (a fresh verifier per pipeline run)"]

    # ------------------------------------------------------------------ generation
    def gen_commit(self, rng):
        n = rng.randint(1, 7)
        style = rng.random()
        if style < 0.45:
            powers = [rng.randint(1, 6) for _ in range(n)]
        elif style < 0.7:
            powers = [rng.choice([1, 10, 33, 34, 100]) for _ in range(n)]
        elif style < 0.85:
            powers = [rng.choice([I63 // n, I63 // n - 1, 2 ** 62, 2 ** 61 + 1]) for _ in range(n)]
        else:
            powers = [rng.randint(1, 1000) for _ in range(n)]
        total = sum(powers)
        # choose signer subset aiming at the boundary
        order = list(range(n))
        rng.shuffle(order)
        target = rng.choice([2 * total // 3 - 1, 2 * total // 3, 2 * total // 3 + 1, total, total // 2, 0])
        sigs, acc = [], 0
        for i in order:
            if acc <= target and rng.random() < 0.9:
                sigs.append("%dg" % i)
                acc += powers[i]
            else:
                sigs.append("%d%s" % (i, rng.choice("an")))
        r = rng.random()
        if r < 0.35 and sigs:      # one non-good entry
            k = rng.randrange(len(sigs))
            i = sigs[k][:-1]
            sigs[k] = i + rng.choice("fewc")
        elif r < 0.55 and sigs:    # duplicate a good signature
            g = [s for s in sigs if s.endswith("g")]
            if g:
                sigs.insert(rng.randrange(len(sigs) + 1), rng.choice(g))
        elif r < 0.62:
            sigs.insert(rng.randrange(len(sigs) + 1), "x" + rng.choice("gfe"))
        h = rng.randint(1, 50)
        vh = h if rng.random() < 0.92 else h + rng.choice([-1, 1])
        return "commit h=%d vh=%d chain=test vals=%s sigs=%s" % (h, max(vh, 1), ",".join(map(str, powers)), ",".join(sigs) or "-")

    def gen(self, rng, tier):
        cases = []
        nc = 8 if tier == "quick" else 60
        for k in range(nc):
            cases.append(["case commit%d" % k] + [self.gen_commit(rng) for _ in range(40)])
        # exhaustive small threshold sweep: two validators (c, t-c), only the first signs
        lines = ["case threshold"]
        for t in range(1, 26):
            for c in range(0, t + 1):
                if c == 0:
                    lines.append("commit h=5 vh=5 chain=test vals=%d sigs=0a" % t)
                elif c == t:
                    lines.append("commit h=5 vh=5 chain=test vals=%d sigs=0g" % t)
                else:
                    lines.append("commit h=5 vh=5 chain=test vals=%d,%d sigs=0g,1a" % (c, t - c))
        cases.append(lines)
        npipe = 6 if tier == "quick" else 40
        for k in range(npipe):
            cases.append(self.gen_pipeline(rng, k))
        return cases

    def gen_pipeline(self, rng, k):
        lines = ["case pipe%d" % k]
        heights = sorted(rng.sample(range(2, 12), rng.randint(2, 4)))
        rollups = ["r1", "r2", "r3"]
        data = {}
        for h in heights:
            rs = [r for r in rollups if rng.random() < 0.7]
            data[h] = {r: rng.randint(1, 4) for r in rs}
            goodq = rng.random() < 0.85
            sigs = "0g,1g,2g" if goodq else rng.choice(["0g,1a,2a", "0g,0g,1a", "0g,1f,2a"])
            lines.append("seqblock k=%d chain=test vals=10,10,10 sigs=%s data=%s" % (
                h, sigs, ",".join("%s:%d" % (r, n) for r, n in data[h].items()) or "-"))
        for h in heights:
            lines.append("honest k=%d rollup=r1" % h)
        self_items = []
        for h in heights:
            self_items.append("m%d" % h)
        for h in heights:
            if "r1" in data[h]:
                self_items.append("d%d:r1" % h)
        firm = rng.choice([heights[0], heights[0], heights[1], 1])
        lines.append("pipeline firm=%d rollup=r1 items=%s" % (firm, ",".join(self_items)))
        # single tamperings
        tampers = []
        for h in heights:
            tampers += ["m%d!hash=%d" % (h, rng.randint(100, 200)), "m%d!chain=evil" % h,
                        "m%d!height=%d" % (h, rng.choice([x for x in heights if x != h] + [h + 20]))]
            if "r1" in data[h]:
                base = "d%d:r1" % h
                tampers += [base + s for s in ("!flip", "!drop", "!dup", "!append", "!rid=r2", "!rid=r9", "!pidx=9223372036854775808",
                                               "!pidx=1", "!psize=0", "!psize=2", "!ppath+", "!ppath-", "!ppath1")]
                if data[h]["r1"] >= 2:
                    tampers.append(base + "!swap")
                others = [x for x in heights if x != h]
                if others:
                    tampers.append(base + "!blk=%d" % rng.choice(others))
        rng.shuffle(tampers)
        for t in tampers[:10]:
            base = t.split("!")[0]
            items = [t if it == base else it for it in self_items]
            if rng.random() < 0.3:
                items.append(rng.choice(["garbage:meta", "garbage:rollup", "badproto:meta", "badproto:rollup"]))
            if rng.random() < 0.3:      # tampered entry next to the honest one
                items = self_items + [t]
            lines.append("pipeline firm=%d rollup=r1 items=%s" % (firm, ",".join(items)))
        # genuine blobs of OTHER rollups of the same block posted into this rollup's namespace (valid proofs!)
        for h in heights:
            foreign = [r for r in data[h] if r != "r1"]
            if foreign:
                f = rng.choice(foreign)
                own = ["d%d:r1" % h] if "r1" in data[h] else []
                lines.append("pipeline firm=%d rollup=r1 items=m%d,d%d:%s%s" % (firm, h, h, f, "".join("," + x for x in own)))
                if own and rng.random() < 0.5:
                    lines.append("pipeline firm=%d rollup=r1 items=m%d,%s,d%d:%s" % (firm, h, own[0], h, f))
        # two-step replays against the verifier's cache (one verifier per case, as in one conductor process):
        # the honest block was verified above; now metadata that re-uses its hash under another height, alone and
        # together with its own (honest-looking) rollup data, and junk rollup entries placed BEFORE the genuine one
        for h in heights:
            others = [x for x in heights if x != h]
            if not others:
                continue
            o = rng.choice(others)
            forged = "m%d!height=%d" % (h, o)
            lines.append("pipeline firm=%d rollup=r1 items=%s" % (firm, forged))
            if "r1" in data[h]:
                lines.append("pipeline firm=%d rollup=r1 items=%s,d%d:r1" % (firm, forged, h))
                junk = rng.choice(["d%d:r1!flip" % h, "d%d:r1!ppath+" % h, "d%d:r1!rid=r2" % h, "d%d:r1!append" % h])
                lines.append("pipeline firm=%d rollup=r1 items=m%d,%s,d%d:r1" % (firm, h, junk, h))
                lines.append("pipeline firm=%d rollup=r1 items=m%d,d%d:r1,%s" % (firm, h, h, junk))
        return lines

    # ------------------------------------------------------------------ execution
    def impl(self, cases):
        text = "\n".join("\n".join(c) for c in cases) + "\n"
        return split_cases(run_harness("astria-conductor", "celestia::verif::drive", text, "c09", timeout=3000))

    def model_all(self, cases, impl):
        self.canon_cache = {}
        parts = []
        for c, il in zip(cases, impl):
            parts.append("\n".join(self.to_model(c, il)))
            self.canon_cache[id(il)] = self.canon_ctx(il)      # uses the per-case context set by to_model
        return [sort_rb(m) for m in split_cases(run_model("c09", "\n".join(parts) + "\n"))]

    def canon(self, lines):
        return self.canon_cache.get(id(lines)) or self.canon_ctx(lines)

    # translate one case of the harness script into the model driver's input
    def to_model(self, case, il):
        out = [case[0]]
        self.hashes = {}      # block k -> hash hex (from impl seqblock lines)
        blocks = {}           # k -> dict(data, quorum inputs)
        honest = {}
        it = iter(il[1:])
        impl_by_line = []
        # pair script lines with impl lines (ops print a variable number of lines)
        idx = 1
        for l in case[1:]:
            op = l.split()[0]
            if op == "pipeline":
                blk = []
                while idx < len(il):
                    blk.append(il[idx])
                    idx += 1
                    if blk[-1].startswith("pipeline "):
                        break
                impl_by_line.append(blk)
            else:
                impl_by_line.append([il[idx]] if idx < len(il) else [])
                idx += 1
        for l, obs in zip(case[1:], impl_by_line):
            t = l.split()
            a = kvs(l)
            if t[0] == "commit":
                out.append("commit ch=%s sh=%s vals=%s sigs=%s" % (a["h"], a["vh"], a["vals"], model_sigs(a["sigs"])))
            elif t[0] in ("seqblock", "seqcommit"):
                k = int(a["k"])
                hx = kvs(obs[0]).get("hash", "%02x" % int(a.get("hash", "0"))) if obs else "?"
                blocks[k] = {"chain": a["chain"], "hash": hx, "data": a.get("data", "-")}
                out.append("cfq h=%d chain=%d hash=%d vals=%s sigs=%s" % (
                    k, self.code("chain:" + a["chain"]), self.code("hash:" + hx), a["vals"], model_sigs(a["sigs"])))
            elif t[0] == "honest":
                if obs:
                    o = kvs(obs[0])
                    honest[int(a["k"])] = o
            elif t[0] == "pipeline":
                out.append(self.pipe_line(a, blocks, honest, obs))
        self.blocks, self.honest = blocks, honest
        return out

    def code(self, s):
        if not hasattr(self, "codes"):
            self.codes = {}
        return self.codes.setdefault(s, len(self.codes) + 1)

    def pipe_line(self, a, blocks, honest, obs=()):
        target = a["rollup"]
        metas, rollups = [[]], [[]]
        uid = 0
        for item in a["items"].split(","):
            newblob = item.startswith("|")
            item = item.lstrip("|")
            if item.startswith(("garbage:", "badproto:")):
                continue            # dropped at decode: contributes nothing
            if item.startswith("wrongns:"):
                continue
            base, _, tam = item.partition("!")
            if base[0] == "m":
                k = int(base[1:])
                b = blocks[k]
                h, chain, hx = k, b["chain"], b["hash"]
                if tam.startswith("hash="):
                    hx = "tampered%s" % tam[5:]
                elif tam.startswith("chain="):
                    chain = tam[6:]
                elif tam.startswith("height="):
                    h = int(tam[7:])
                hasr = "1" if target in [x.split(":")[0] for x in b["data"].split(",") if x != "-"] else "0"
                e = "%d:%d:%d:1:%s" % (h, self.code("chain:" + chain), self.code("hash:" + hx), hasr)
                if newblob:
                    metas.append([])
                metas[-1].append(e)
            else:
                k, r = base[1:].split(":")
                k = int(k)
                hx = blocks[k]["hash"]
                wf, audit = 1, 1 if r == target or True else 0
                txs = self.code("txs:%d:%s" % (k, r))
                if tam:
                    audit = 0
                    if tam.startswith(("pidx=", "psize=", "ppath")):
                        # whether an edited (index, size, path) still audits is C08's business; take the verdict the
                        # implementation reached (the data it attaches is still checked against the honest data by the
                        # monitor).  If the honest entry is present too, the edited one is irrelevant.
                        honest_too = ("d%d:%s" % (k, r)) in a["items"].split(",")
                        attached = any(o.startswith("rb ") and kvs(o).get("hash") == hx and kvs(o).get("ntx") != "0" for o in obs)
                        audit = 1 if (attached and not honest_too) else 0
                    if tam.startswith("blk="):
                        hx = blocks[int(tam[4:])]["hash"]
                    if tam.startswith("pidx="):
                        v = int(tam[5:])
                        n_leaves = len([x for x in blocks[k]["data"].split(",") if x != "-"])
                        wf = 1 if 2 * v < 2 * n_leaves - 1 else 0
                    if tam.startswith("psize="):
                        v = int(tam[6:])
                        wf = 0 if v == 0 else wf
                    if tam == "ppath1":
                        wf = 0
                    txs = self.code("txs:%d:%s" % (k, r)) if tam.startswith(("pidx=", "psize=", "ppath")) else self.code("txs:%d:%s:%s" % (k, r, tam))
                uid += 1
                own = 1 if (tam[4:] if tam.startswith("rid=") else r) == target else 0
                e = "%d:%d:%d:%d:%d:%d" % (self.code("hash:" + hx), uid, wf, audit, txs, own)
                if newblob:
                    rollups.append([])
                rollups[-1].append(e)
        return "pipe nf=%s metas=%s rollups=%s" % (a["firm"], "|".join(",".join(b) for b in metas if b) or "-",
                                                    "|".join(",".join(b) for b in rollups if b) or "-")

    def canon_ctx(self, lines):
        """implementation lines -> the model's vocabulary"""
        out = []
        rbs = []
        for l in lines:
            t = l.split()
            if t[0] in ("seqblock", "seqcommit", "honest"):
                continue
            if t[0] == "rb":
                a = kvs(l)
                txs = "-" if a["ntx"] == "0" and self.is_empty_block(a) else str(self.txs_code(a))
                rbs.append("rb h=%s hash=%d chain=%d txs=%s" % (a["h"], self.code("hash:" + a["hash"]), self.code("chain:" + a["chain"]), txs))
                continue
            if t[0] == "pipeline":
                out += sorted(rbs)
                rbs = []
            out.append(l)
        return out

    def is_empty_block(self, a):
        return True

    def txs_code(self, a):
        # map the digest printed by the implementation back to the honest (block, rollup) it belongs to
        for k, o in getattr(self, "honest", {}).items():
            if o.get("txs") == a["txs"] and o.get("hash") == a["hash"]:
                return self.code("txs:%d:%s" % (k, "r1"))
        return self.code("txs:unknown:" + a["txs"])

    # ------------------------------------------------------------------ oracle on the implementation alone
    def monitor(self, case, il):
        fails = []
        for l in il:
            if l.endswith(" panic"):
                fails.append("panic: %r" % l)
        idx = 1
        honest, blocks = {}, {}
        for l in case[1:]:
            t = l.split()
            a = kvs(l)
            if t[0] == "pipeline":
                blk = []
                while idx < len(il):
                    blk.append(il[idx])
                    idx += 1
                    if blk[-1].startswith("pipeline "):
                        break
                # every reconstructed block must be an honest block of a height whose commit had quorum, with
                # that block's hash and chain id, and (if it carries data) exactly the honest data of the rollup
                for o in blk:
                    if not o.startswith("rb "):
                        continue
                    r = kvs(o)
                    k = int(r["h"])
                    b = blocks.get(k)
                    if b is None or not b["quorum"]:
                        fails.append("accepted metadata for height %d without a >2/3 commit: %s" % (k, o))
                        continue
                    if r["hash"] != b["hash"] or r["chain"] != b["chain"]:
                        fails.append("accepted metadata whose hash/chain id differ from the commit's: %s (commit %s %s)" % (o, b["hash"], b["chain"]))
                    if r["ntx"] != "0":
                        h = honest.get(k)
                        if h is None or h.get("txs") != r["txs"] or h.get("ntx") != r["ntx"]:
                            fails.append("rollup data attached that is not the block's data for the rollup: %s (honest %s)" % (o, h))
                # "anything else found in the namespaces is ignored": an honest block whose honest metadata and honest
                # rollup data are both present (commit with quorum, not below the firm height) must come out with its data
                items = a["items"].replace("|", ",").split(",")
                got = {(kvs(o)["h"], kvs(o)["txs"]) for o in blk if o.startswith("rb ")}
                dec = next((kvs(o) for o in blk if o.startswith("decoded ")), {})
                n_m = sum(1 for i in items if i.startswith("m"))
                n_d = sum(1 for i in items if i.startswith("d"))
                # premise: nothing was dropped at decode level (a malformed entry drops its whole list blob, which is
                # the poster's own blob; that is not "something else in the namespace")
                all_decoded = dec.get("headers") == str(n_m) and dec.get("rollups") == str(n_d)
                for k, b in (blocks.items() if all_decoded else ()):
                    if ("m%d" % k) in items and ("d%d:%s" % (k, a["rollup"])) in items and b["quorum"] and k >= int(a["firm"]) \
                            and k in honest and not any("panic" in o or "timeout" in o for o in blk):
                        if (str(k), honest[k].get("txs")) not in got:
                            fails.append("honest block %d with its honest data present was not reconstructed (items=%s)" % (k, a["items"]))
                continue
            obs = il[idx] if idx < len(il) else ""
            idx += 1
            if t[0] == "commit":
                want = self.commit_oracle(a)
                got = obs == "commit ok"
                if got and not want:
                    fails.append("commit accepted without distinct valid signers holding > 2/3: %s" % l)
            elif t[0] in ("seqblock", "seqcommit"):
                k = int(a["k"])
                blocks[k] = {"chain": a["chain"], "hash": kvs(obs).get("hash"),
                             "quorum": self.commit_oracle({"h": a["k"], "vh": a["k"], "vals": a["vals"], "sigs": a["sigs"]})}
            elif t[0] == "honest":
                honest[int(a["k"])] = kvs(obs)
        return fails

    @staticmethod
    def commit_oracle(a):
        """the property's acceptance condition, computed independently: heights agree and the DISTINCT
        validators with a good signature hold strictly more than 2/3 of the total power"""
        if a["h"] != a["vh"]:
            return False
        powers = [int(p) for p in a["vals"].split(",")]
        total = sum(powers)
        good = set()
        for e in a["sigs"].split(","):
            if e and e != "-" and e[-1] == "g" and e[:-1] != "x":
                good.add(int(e[:-1]))
        return 3 * sum(powers[i] for i in good) > 2 * total

    def nontrivial(self, case, il):
        return True

    def shrink(self, case, kind):
        if case[0].startswith("case pipe"):
            return case
        return super().shrink(case, kind)

    def stats(self, cases, impl):
        c = Counter()
        for il in impl:
            for l in il[1:]:
                t = l.split()
                c[t[0] + ("_" + t[1] if t[0] == "commit" else "")] += 1
        return dict(c)


CHECK = C09()
