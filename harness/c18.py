"""C18 — ICS-20 transfers: exact escrow accounting; a failed receive has no side effects.
Model: coq/theories/Ics20 (driver `c18`); implementation: crates/astria-sequencer, harness
`app::verif_c18::drive` (real Ics20Transfer callbacks on a StateDelta over a real App; outgoing
Ics20Withdrawal as signed transactions through CheckedTransaction + App::execute_transaction).

A case = set-up lines (chain, channels, balances, escrow, bridges, fee assets, `denoms` universe)
followed by ops (wd / recv / ack / timeout / dis).  After every op the harness dumps balances,
escrow, registered assets, cached deposits and deposit events; the monitor evaluates the
property on those dumps alone."""
import copy
import json
import os
from collections import Counter
from concurrent.futures import ThreadPoolExecutor

from common import CaseCheck, VERIF, run_harness, run_model, split_cases

MAX = 2 ** 128 - 1
ACCTS = ["a%d" % k for k in range(1, 10)]
OPS = ("wd", "recv", "ack", "timeout")

F5_ID, F8_ID = "F5", "F8"
F5_TEXT = ("known: property=C18 F5 receive_tokens (ics20_transfer.rs) writes before it can still fail and "
           "recv_packet_execute keeps those writes when it turns the failure into an error acknowledgement: "
           "incoming packet to a bridge account with insufficient escrow / overflowing credit leaves the Deposit "
           "cached and its tx.deposit event recorded; a source-zone packet whose credit overflows leaves the "
           "channel escrow decreased")
F8_TEXT = ("known: property=C18 F8 Ics20Withdrawal of a sequencer-origin asset named by its ibc/<hash> denom is "
           "burned instead of escrowed (checked_actions/ics20_withdrawal.rs is_source returns false for "
           "Denom::IbcPrefixed); a later refund of that packet is paid out of other users' escrow")


# ----------------------------------------------------------------------------- denominations

def parse_denom(s):
    parts = s.split("/")
    if len(parts) % 2 == 0 or any(p == "" for p in parts):
        raise ValueError("bad denom " + s)
    return (tuple((parts[i], parts[i + 1]) for i in range(0, len(parts) - 1, 2)), parts[-1])


def show(d):
    return "".join("%s/%s/" % sg for sg in d[0]) + d[1]


def has_prefix(d, port, chan):
    return len(d[0]) > 0 and d[0][0] == (port, "channel-%d" % chan)


def pop(d):
    return (d[0][1:], d[1])


def push(port, chan, d):
    return (((port, "channel-%d" % chan),) + d[0], d[1])


def origin(chan, d):
    """d is a sequencer-origin asset with respect to channel `chan` (ICS-20 source zone)."""
    return not has_prefix(d, "transfer", chan)


def kvs(toks):
    return dict(t.split("=", 1) for t in toks if "=" in t)


def amount_of(tok):
    """u128::from_str"""
    body = tok[1:] if tok.startswith("+") else tok
    if body.isdigit() and body.isascii() and int(body) <= MAX:
        return int(body)
    return None


def addr_of(tok):
    if tok.startswith("bad:"):
        return None
    return tok[7:] if tok.startswith("compat:") else tok


def dep_memo(tok):
    """(valid Ics20TransferDeposit for a bridge deposit?, destination as printed)"""
    if tok.startswith("dep:"):
        s = tok[4:]
        return (0 < len(s) <= 256, s if len(s) <= 24 else "len%d" % len(s))
    if tok.startswith("deplen:"):
        n = int(tok[7:])
        return (0 < n <= 256, "x" * n if n <= 24 else "len%d" % n)
    return (False, None)


def denom_token(tok):
    """-> (underlying denom or None, is ibc form)"""
    if tok.startswith("bad:"):
        return (None, False)
    if tok.startswith("ibc:"):
        return (parse_denom(tok[4:]), True)
    return (parse_denom(tok), False)


# ----------------------------------------------------------------------------- observations

class Obs:
    """state dumped by the harness after an op"""

    def __init__(self):
        self.bal, self.esc, self.reg, self.dep, self.ev = {}, {}, set(), [], []

    def same_ledger(self, o):
        return self.bal == o.bal and self.esc == o.esc and self.dep == o.dep and self.ev == o.ev


def parse_impl(il):
    """-> list of (head line tokens, dirty Obs or None, Obs or None) per emitted op line"""
    out = []
    cur = None
    for l in il[1:]:
        t = l.split()
        if not t:
            continue
        if len(t) == 2 and t[1] in ("ok", "parseerr", "nochain", "panic", "err"):
            cur = [t, None, Obs(), False]
            out.append(cur)
        elif t[0] == "dirty":
            if cur is not None:
                if cur[1] is None:
                    cur[1] = Obs()
                add_obs(cur[1], t[1:])
        elif t[0] in ("bal", "esc", "reg", "dep", "ev") and cur is not None and cur[2] is not None and not cur[3]:
            add_obs(cur[2], t)
        elif t[0] == "end":
            if cur is not None:
                cur[3] = True
        else:
            cur = [t, None, Obs(), False]
            out.append(cur)
    return [(c[0], c[1], c[2] if c[3] else None) for c in out]


def add_obs(o, t):
    if t[0] == "bal":
        o.bal[(t[1], t[2])] = int(t[3])
    elif t[0] == "esc":
        o.esc[(int(t[1]), t[2])] = int(t[3])
    elif t[0] == "reg":
        o.reg.add(t[1])
    elif t[0] == "dep":
        o.dep.append(tuple(t[1:]))
    elif t[0] == "ev":
        o.ev.append(tuple(t[1:]))


class Config:
    """what the script itself fixes (not dumped by the harness)"""

    def __init__(self):
        self.bb = False
        self.fee = {"nria"}
        self.bridges = {}        # acct -> dict(rollup, asset, withdrawer, disabled)
        self.chans = {}          # sequencer channel -> counterparty channel
        self.have_chain = False


def apply_setup(cfg, t):
    """track set-up lines; returns True if the line was a set-up line"""
    op = t[0]
    if op == "chain":
        cfg.__init__()
        cfg.bb = kvs(t[1:]).get("bb") == "1"
        cfg.have_chain = True
    elif op == "chan":
        cfg.chans[int(t[1])] = int(kvs(t[2:])["cp"])
    elif op == "feeasset":
        cfg.fee.add(t[1])
    elif op == "bridge":
        kv = kvs(t[2:])
        old = cfg.bridges.get(t[1], {})
        dis = kv.get("disabled", "-")
        cfg.bridges[t[1]] = dict(rollup="r" + kv["rollup"], asset=kv["asset"], withdrawer=kv["withdrawer"],
                                 disabled=(old.get("disabled", False) if dis == "-" else dis == "1"))
    elif op == "dis":
        if t[1] in cfg.bridges:
            cfg.bridges[t[1]]["disabled"] = t[2] == "1"
    elif op in ("denoms", "reg", "bal", "esc", "dump", "case"):
        pass
    else:
        return False
    return True


def recv_facts(cfg, pre, kv):
    """For an incoming packet: (reasons why it cannot be fully applied, is_source, asset string,
    recipient, amount, escrow key) from the script and the implementation's own pre-state."""
    why = []
    if "raw" in kv:
        return (["undecodable packet data"], False, None, None, None, None)
    amt = amount_of(kv["amt"]) if kv["amt"] != "-" else None
    if amt is None:
        why.append("bad amount")
    rcpt = addr_of(kv["to"])
    if rcpt is None:
        why.append("bad recipient")
    d, ibc = denom_token(kv["denom"])
    if d is None:
        why.append("bad denom")
    elif ibc and show(d) not in pre.reg:
        why.append("unknown ibc denom")
        d = None
    if d is None:
        return (why, False, None, rcpt, amt, None)
    sp, sc, dp, dc = kv["sp"], int(kv["sc"]), kv["dp"], int(kv["dc"])
    src = has_prefix(d, sp, sc)
    asset = show(pop(d) if src else push(dp, dc, d))
    if cfg.bb and asset not in cfg.fee:
        why.append("disallowed asset")
    if rcpt in cfg.bridges:
        b = cfg.bridges[rcpt]
        if b["disabled"]:
            why.append("disabled bridge")
        if not dep_memo(kv["memo"])[0]:
            why.append("bad memo")
        if b["asset"] != asset:
            why.append("mismatched bridge")
    if amt is not None:
        if src and amt > pre.esc.get((dc, asset), 0):
            why.append("insufficient escrow")
        if rcpt is not None and pre.bal.get((rcpt, asset), 0) + amt > MAX:
            why.append("overflow")
    return (why, src, asset, rcpt, amt, (dc, asset))


# ----------------------------------------------------------------------------- generator helper

class Sim:
    """A small reference simulation, used ONLY to pick boundary amounts while generating (it is not
    an oracle: nothing is compared against it)."""

    def __init__(self):
        self.bal, self.esc, self.reg = Counter(), Counter(), {"nria"}
        self.sent = {}

    def obs(self):
        o = Obs()
        o.bal = {k: v for k, v in self.bal.items() if v}
        o.esc = {k: v for k, v in self.esc.items() if v}
        o.reg = set(self.reg)
        return o


class C18(CaseCheck):
    pid = "C18"
    rule = ("histories of 6-30 operations over 2 channels (plus unopened / mismatched ones), 4-7 denominations "
            "(native, second sequencer-origin asset, vouchers received over either channel, multi-hop and "
            "wrongly-prefixed forms, ibc/<hash> forms, unparsable), plain / compat-prefixed / bridge / disabled-bridge / "
            "malformed recipients, good and bad memos (incl. 256/257-byte rollup addresses), amounts in "
            "{0,1,escrow-1,escrow,escrow+1,balance±1,u128::MAX,MAX+1,non-numeric}, credit overflow, refunds by timeout "
            "and error acknowledgement (once, twice, never sent), interleaved with outgoing withdrawals (plain and "
            "from a bridge account, trace and ibc/ denom forms, escrow overflow); non-trivial = at least 3 "
            "transfer operations of which one succeeded; distinct = distinct script")
    assumptions = [
        "IBC core (Penumbra): client/connection/channel handshakes, packet commitment proofs and send_packet_check are "
        "outside the model; the harness calls the ICS-20 application callbacks directly with constructed packets "
        "(check callback first, then execute, as the core does) on a channel written directly into state",
        "StateDelta: a failing timeout/acknowledgement callback or withdrawal is rolled back by dropping the "
        "transaction's delta (modelled as state unchanged; the harness drops the delta exactly as App::execute_transaction does)",
        "assets are keyed by their trace-prefixed denomination in the model (the implementation keys by sha256 of it): "
        "hash injectivity is assumed; bech32 parsing, JSON packet/memo parsing are abstracted to parsed/unparsable "
        "(the real parsers run in the harness)",
        "fees: the Ics20Withdrawal fee is set to zero in the harness chain so that balances move by transfers only",
    ]
    extra_tb = ("modelled, not verified: cnidarium StateDelta, Penumbra IBC core, sha256 asset ids, bech32/JSON codecs",)

    # -- generation -----------------------------------------------------------------------------
    def gen(self, rng, tier):
        n = 260 if tier == "quick" else 6000
        return [self.gen_case(rng, i) for i in range(n)]

    def gen_case(self, rng, idx):
        odd = rng.random() < 0.25          # malformed stream
        bb = rng.random() < 0.7
        sim = Sim()
        cfg = Config()
        cfg.bb, cfg.have_chain = bb, True
        lines = ["chain bb=%d" % bb, "chan 0 cp=7"]
        cfg.chans[0] = 7
        if rng.random() < 0.85:
            lines.append("chan 1 cp=8")
            cfg.chans[1] = 8
        v0, v1 = "transfer/channel-0/uatom", "transfer/channel-1/uatom"
        held = ["nria", "ugly", v0, v1]
        for d, p in (("ugly", 0.85), (v0, 0.85), (v1, 0.8), ("transfer/channel-0/transfer/channel-9/uosmo", 0.4),
                     ("transfer/channel-0/transfer/channel-0/nria", 0.15)):
            if rng.random() < p:
                lines.append("feeasset " + d)
                cfg.fee.add(d)
        for d in (v0, v1, "ugly"):
            if rng.random() < 0.6:
                lines.append("reg " + d)
                sim.reg.add(d)
        plain = ["a1", "a2", "a5", "a6"]
        for a in plain:
            for d in held:
                if rng.random() < (0.9 if d == "nria" else 0.45):
                    v = rng.choice([1, 7, 100, 1000, 10 ** 19, rng.randrange(1, 10 ** 6)])
                    lines.append("bal %s %s %d" % (a, d, v))
                    sim.bal[(a, d)] = v
        if rng.random() < 0.5:             # an account near the top of u128
            d = rng.choice(["nria", v0])
            v = MAX - rng.choice([0, 1, 5, 1000])
            lines.append("bal a6 %s %d" % (d, v))
            sim.bal[("a6", d)] = v
        for c in (0, 1):
            for d in ("nria", "ugly", v1 if c == 0 else v0):
                if rng.random() < 0.45:
                    v = rng.choice([1, 5, 50, 1000, 10 ** 6, 10 ** 6, MAX, MAX - 3])
                    lines.append("esc %d %s %d" % (c, d, v))
                    sim.esc[(c, d)] = v
        b1 = rng.choice(["nria", "nria", "ugly"])
        lines.append("bridge a3 rollup=1 asset=%s withdrawer=a4 disabled=0" % b1)
        cfg.bridges["a3"] = dict(rollup="r1", asset=b1, withdrawer="a4", disabled=False)
        if rng.random() < 0.7:
            b2 = rng.choice([v0, "ugly", "nria"])
            dis = int(rng.random() < 0.35)
            lines.append("bridge a7 rollup=2 asset=%s withdrawer=a4 disabled=%d" % (b2, dis))
            cfg.bridges["a7"] = dict(rollup="r2", asset=b2, withdrawer="a4", disabled=bool(dis))
        for b, br in cfg.bridges.items():
            if rng.random() < 0.6:
                v = rng.choice([5, 500, 10 ** 9, MAX - 2])
                lines.append("bal %s %s %d" % (b, br["asset"], v))
                sim.bal[(b, br["asset"])] = v
        ops = []
        self.wd_n = 0
        self.seq = 0
        for _ in range(rng.randrange(6, 31)):
            r = rng.random()
            if r < 0.30:
                ops.append(self.gen_wd(rng, sim, cfg, odd))
            elif r < 0.70:
                ops.append(self.gen_recv(rng, sim, cfg, odd))
            elif r < 0.95:
                ops.append(self.gen_refund(rng, sim, cfg, odd))
            else:
                b = rng.choice(sorted(cfg.bridges))
                f = int(rng.random() < 0.5)
                cfg.bridges[b]["disabled"] = bool(f)
                ops.append("dis %s %d" % (b, f))
        uni = self.universe(lines + ops)
        return ["case %d %s" % (idx, "odd" if odd else "std")] + lines + ["denoms " + " ".join(uni), "dump"] + ops

    @staticmethod
    def universe(lines):
        """every denomination a correct run of the case can touch: the named ones, their popped form, and their
        form prefixed with each receiving (port, channel) pair"""
        ds, pairs = set(), set()
        for l in lines:
            t = l.split()
            kv = kvs(t[1:])
            if t[0] == "chan":
                pairs.add(("transfer", int(t[1])))
            if "dp" in kv:
                pairs.add((kv["dp"], int(kv["dc"])))
            cands = [x for x in t[1:] if "=" not in x] + [kv.get("denom", ""), kv.get("asset", "")]
            for x in cands:
                x = x[4:] if x.startswith("ibc:") else x
                if x and not x.startswith("bad:") and not x.isdigit() and not (x[0] == "a" and x[1:].isdigit()):
                    try:
                        ds.add(parse_denom(x))
                    except ValueError:
                        pass
        out = set(ds)
        for d in ds:
            if d[0]:
                out.add(pop(d))
            for (p, c) in pairs:
                out.add(push(p, c, d))
        return sorted(show(d) for d in out)

    def pick_amount(self, rng, refs, odd):
        """refs = the limits that matter for this op (balance, escrow, headroom of the credited balance)"""
        lim = min(refs) if refs else 0
        if lim > 0 and rng.random() < (0.45 if odd else 0.6):
            return rng.randrange(1, min(lim, 10 ** 6) + 1)        # comfortably valid
        cands = [1, 2, 3, 10, rng.randrange(1, 1000)]
        for r in refs:
            cands += [r, r, r - 1, r + 1]
        cands += [0, MAX]
        if odd:
            cands += [MAX, MAX - 1]
        v = rng.choice(cands)
        return max(0, min(MAX, v))

    def gen_wd(self, rng, sim, cfg, odd):
        self.wd_n += 1
        wid = "w%d" % self.wd_n
        chan = rng.choice([0, 0, 1, 1, 2] if odd else [0, 0, 1, 1])
        from_bridge = rng.random() < 0.18
        if from_bridge:
            b = rng.choice(sorted(cfg.bridges))
            holder, signer = b, (cfg.bridges[b]["withdrawer"] if rng.random() < 0.9 else "a1")
            denoms = [cfg.bridges[b]["asset"]]
        else:
            signer = holder = rng.choice(["a1", "a2", "a5", "a6"] + (["a3"] if odd else []))
            denoms = [d for (a, d), v in sim.bal.items() if a == holder and v > 0] or ["nria"]
        d = rng.choice(sorted(denoms))
        if odd and rng.random() < 0.15:
            d = rng.choice(["uatom", "transfer/channel-7/nria", "transfer/channel-0/transfer/channel-0/nria"])
        have = sim.bal.get((holder, d), 0)
        refs = [have]
        if origin(chan, parse_denom(d)):
            refs.append(MAX - sim.esc.get((chan, d), 0))
        amt = self.pick_amount(rng, refs, odd)
        if amt == 0 and rng.random() < 0.7:
            amt = 1
        form = d
        if rng.random() < (0.2 if odd else 0.1):
            form = "ibc:" + d
        ret = holder if rng.random() < 0.85 else rng.choice(["a1", "a2", "a3"])
        line = "wd id=%s from=%s chan=%d denom=%s amt=%d ret=%s" % (wid, signer, chan, form, amt, ret)
        if rng.random() < 0.1:
            line += " compat=1"
        memo_wfr = None
        if from_bridge:
            evid = rng.choice(["e1", "e2", "e3", "e%d" % self.wd_n]) if not (odd and rng.random() < 0.1) else "-"
            blk = rng.choice([1, 5, 9]) if not (odd and rng.random() < 0.1) else 0
            rret = rng.choice(["rollupret", "0xabc", "len:256"]) if not (odd and rng.random() < 0.15) else rng.choice(["-", "len:257"])
            line += " bridge=%s evid=%s blk=%d rret=%s" % (holder, evid, blk, rret)
            memo_wfr = rret
        elif rng.random() < (0.15 if odd else 0.04):
            m = rng.choice(["bad", "wfr:userret", "wfrempty", "dep:zz"])
            line += " memo=" + m
            memo_wfr = m if m.startswith("wfr") else None
        # simulate the plain success path (approximately) so later ops can refer to it
        ok = (amt > 0 and have >= amt and chan in cfg.chans
              and (from_bridge or holder not in cfg.bridges)
              and (not from_bridge or (signer == cfg.bridges[holder]["withdrawer"] and "-" not in line.split("bridge=")[1]
                                       and "blk=0" not in line and "len:257" not in line)))
        if ok and origin(chan, parse_denom(d)) and not form.startswith("ibc:"):
            ok = sim.esc.get((chan, d), 0) + amt <= MAX
        if ok:
            sim.bal[(holder, d)] -= amt
            if origin(chan, parse_denom(d)) and not form.startswith("ibc:"):
                sim.esc[(chan, d)] += amt
            sim.sent[wid] = dict(chan=chan, d=d, amt=amt, ret=ret, done=False)
        return line

    def gen_recv(self, rng, sim, cfg, odd):
        self.seq += 1
        seq = self.seq if not (odd and rng.random() < 0.08) else max(1, self.seq - 1)
        dc = rng.choice([0, 0, 1] if not odd else [0, 0, 0, 1, 1, 1, 2])
        sc = {0: 7, 1: 8}.get(dc, 9)
        sp = dp = "transfer"
        if odd and rng.random() < 0.12:
            sp = "xport"
        if odd and rng.random() < 0.08:
            sc = rng.choice([7, 8, 0])
        to = rng.choice(["a1", "a2", "a5", "a6", "a6", "a3", "a3", "a7", "compat:a2"] +
                        (["bad:0", "bad:1", "bad:2", "bad:3", "bad:4", "compat:a3"] if odd or rng.random() < 0.1 else []))
        escrowed = sorted(d for (c, d), v in sim.esc.items() if c == dc and v > 0)
        r = rng.random()
        want = cfg.bridges.get(addr_of(to) or "", {}).get("asset")
        if want is not None and rng.random() < 0.8:
            # aim at the bridge account's asset
            wd_ = parse_denom(want)
            if has_prefix(wd_, dp, dc):
                packet_denom = show(pop(wd_))
                refs = [5]
            else:
                packet_denom = show(push(sp, sc, wd_))
                refs = [sim.esc.get((dc, want), 0)]
        elif r < 0.55:
            a = rng.choice(escrowed or ["nria", "ugly"])
            packet_denom = show(push(sp, sc, parse_denom(a)))
            refs = [sim.esc.get((dc, a), 0)]
        elif r < 0.85:
            packet_denom = rng.choice(["uatom", "uatom", "uatom", "transfer/channel-9/uosmo", "transfer/channel-%d/nria" % dc,
                                       "xport/channel-%d/nria" % sc, "nria"])
            refs = [5]
        else:
            packet_denom = rng.choice(["bad:0", "bad:1", "bad:2", "bad:3", "bad:4", "bad:5",
                                       "ibc:transfer/channel-%d/nria" % sc, "ibc:uatom", "ibc:nria",
                                       "ibc:transfer/channel-%d/ugly" % sc])
            refs = [3]
        rcpt = addr_of(to)
        d, _ = denom_token(packet_denom)
        asset = None
        if d is not None:
            asset = show(pop(d) if has_prefix(d, sp, sc) else push(dp, dc, d))
            if rcpt is not None:
                refs.append(MAX - sim.bal.get((rcpt, asset), 0))
        amt = self.pick_amount(rng, refs, odd)
        amt_tok = str(amt)
        if rng.random() < (0.1 if odd else 0.02):
            amt_tok = rng.choice(["-", "abc", str(MAX + 1), "-1", "1.5", "+7", "007"])
        if rcpt in cfg.bridges:
            memo = rng.choice(["dep:rollupaddr", "dep:0xdead", "dep:rollupaddr", "deplen:256"])
            if rng.random() < (0.3 if odd else 0.12):
                memo = rng.choice(["-", "bad", "depempty", "deplen:257", "wfr:zz", "wfrempty", "deplen:0"])
        else:
            memo = rng.choice(["-", "-", "-", "dep:rollupaddr", "bad"])
        if odd and rng.random() < 0.05:
            return "recv seq=%d sp=%s sc=%d dp=%s dc=%d raw=%s" % (seq, sp, sc, dp, dc, rng.choice(["bad", "empty", "long"]))
        line = "recv seq=%d sp=%s sc=%d dp=%s dc=%d denom=%s amt=%s to=%s memo=%s" % (
            seq, sp, sc, dp, dc, packet_denom, amt_tok, to, memo)
        # approximate success path for later boundary picks
        pre = sim.obs()
        why, src, asset2, rcpt2, amt2, key = recv_facts(cfg, pre, kvs(line.split()[1:]))
        if not why and dc in cfg.chans:
            if src:
                sim.esc[key] -= amt2
            else:
                sim.reg.add(asset2)
            sim.bal[(rcpt2, asset2)] += amt2
        return line

    def gen_refund(self, rng, sim, cfg, odd):
        pend = sorted(k for k, v in sim.sent.items() if not v["done"])
        allk = sorted(sim.sent)
        r = rng.random()
        if pend and r < 0.7 or (allk and r < 0.8):
            k = rng.choice(pend if (pend and r < 0.7) else allk)
            kind = rng.choice(["timeout", "ack"])
            res = rng.choice(["err", "err", "err", "ok", "bad"] if odd else ["err", "err", "err", "ok"])
            p = sim.sent[k]
            if kind == "timeout" or res == "err":
                src = origin(p["chan"], parse_denom(p["d"]))
                if (not src or sim.esc.get((p["chan"], p["d"]), 0) >= p["amt"]) and \
                        sim.bal.get((p["ret"], p["d"]), 0) + p["amt"] <= MAX:
                    if src:
                        sim.esc[(p["chan"], p["d"])] -= p["amt"]
                    sim.bal[(p["ret"], p["d"])] += p["amt"]
                    p["done"] = True
            elif res == "ok":
                p["done"] = True
            return "%s pkt=%s%s" % (kind, k, "" if kind == "timeout" else " res=" + res)
        if r < 0.83 or not odd:
            if not odd:
                return self.gen_recv(rng, sim, cfg, odd)
            return "timeout pkt=w%d" % (self.wd_n + 5)          # never sent
        # free form: a refund the sequencer never sent (IBC core would refuse it); exercises the callbacks
        sc = rng.choice([0, 1])
        d = rng.choice(["nria", "ugly", "transfer/channel-%d/uatom" % sc, "ibc:nria", "bad:1", "ibc:uatom"])
        sender = rng.choice(["a1", "a2", "a3", "a6", "compat:a1", "bad:1"])
        refs = [sim.esc.get((sc, d), 0)]
        amt = self.pick_amount(rng, refs, odd)
        memo = rng.choice(["-", "-", "wfr:rollupret", "bad", "wfrempty", "dep:x"])
        kind = rng.choice(["timeout", "ack"])
        return "%s sp=%s sc=%d denom=%s amt=%d sender=%s memo=%s%s" % (
            kind, rng.choice(["transfer", "transfer", "transfer", "xport"]), sc, d, amt, sender, memo,
            "" if kind == "timeout" else " res=err")

    # -- execution ------------------------------------------------------------------------------
    def impl(self, cases):
        shards = 1 if len(cases) < 600 else 8
        chunks = [cases[i::shards] for i in range(shards)]

        def run(k):
            if not chunks[k]:
                return []
            text = "\n".join("\n".join(c) for c in chunks[k]) + "\n"
            return split_cases(run_harness("astria-sequencer", "app::verif_c18::drive", text, "c18_%d" % k))
        if shards == 1:
            return run(0)
        with ThreadPoolExecutor(max_workers=shards) as ex:
            res = list(ex.map(run, range(shards)))
        out = [None] * len(cases)
        for k in range(shards):
            if len(res[k]) != len(chunks[k]):
                return []
            for j, il in enumerate(res[k]):
                out[k + j * shards] = il
        return out

    def model_all(self, cases, impl):
        text = "\n".join("\n".join(c) for c in cases) + "\n"
        return split_cases(run_model("c18", text))

    # -- the property, on the implementation's observations only -------------------------------
    def walk(self, case, il):
        """yields (index, script tokens, head tokens, dirty, pre Obs, post Obs, config-before-op) for each transfer op"""
        recs = parse_impl(il)
        cfg = Config()
        pre = None
        k = 0
        out = []
        for i, line in enumerate(case[1:], 1):
            t = line.split()
            if not t or t[0].startswith("#"):
                continue
            if k >= len(recs):
                break
            head, dirty, post = recs[k]
            k += 1
            if head[0] != t[0]:
                break                      # harness and script out of step (cannot happen); stop monitoring
            if len(head) > 1 and head[-1] in ("parseerr", "nochain", "panic", "unknown"):
                if head[-1] == "panic":
                    out.append((i, t, head, None, pre, None, None))
                continue
            if t[0] in OPS:
                out.append((i, t, head, dirty, pre, post, copy.deepcopy(cfg)))
                if post is not None:
                    pre = post
            else:
                apply_setup(cfg, t)
                if t[0] in ("bal", "esc", "chain"):
                    pre = None             # ledger rewritten by fiat: re-baseline at the next dump
                if post is not None and t[0] == "dump":
                    pre = post
        return out

    def monitor(self, case, il):
        """failure strings have the form `<class>: op <line index>: <what> [<script line>]`"""
        fails = []
        self._wds = {kvs(l.split()[1:]).get("id"): kvs(l.split()[1:]) for l in case[1:] if l.startswith("wd ")}
        for (i, t, head, dirty, pre, post, cfg) in self.walk(case, il):
            if head[-1] == "panic":
                fails.append("panic: op %d: `%s`" % (i, " ".join(t)[:160]))
                continue
            if pre is None or post is None:
                continue
            for cls, txt in self.check_op(t, head, pre, post, cfg):
                fails.append("%s: op %d: %s [%s]" % (cls, i, txt, " ".join(t)[:200]))
        return fails

    def expected_escrow_delta(self, t, head, pre, cfg):
        """{(chan, denom): signed amount} the escrow of sequencer-origin assets must move by"""
        kv = kvs(t[1:])
        res = head[-1]
        if t[0] == "wd" and res == "ok":
            d, _ = denom_token(kv["denom"])
            c = int(kv["chan"])
            if d is not None and origin(c, d):
                return {(c, show(d)): int(kv["amt"])}
        elif t[0] == "recv" and res == "ack=ok" and "raw" not in kv:
            d, ibc = denom_token(kv["denom"])
            amt = amount_of(kv["amt"])
            if d is not None and amt is not None and has_prefix(d, kv["sp"], int(kv["sc"])):
                a, c = pop(d), int(kv["dc"])
                if origin(c, a):
                    return {(c, show(a)): -amt}
        elif t[0] in ("ack", "timeout") and res == "ok" and (t[0] == "timeout" or kv.get("res") == "err"):
            p = self.refund_packet(t, kv)
            if p is not None:
                d, amt, sp, sc = p
                if not has_prefix(d, sp, sc) and origin(sc, d):
                    return {(sc, show(d)): -amt}
        return {}

    def refund_packet(self, t, kv):
        """(denom, amount, source port, source channel) of the packet an ack/timeout op refers to"""
        if "pkt" in kv:
            w = self._wds.get(kv["pkt"])
            if w is None:
                return None
            d, _ = denom_token(w["denom"])
            return (d, int(w["amt"]), "transfer", int(w["chan"]))
        if "raw" in kv:
            return None
        d, _ = denom_token(kv["denom"])
        amt = amount_of(kv["amt"])
        if d is None or amt is None:
            return None
        return (d, amt, kv["sp"], int(kv["sc"]))

    def check_op(self, t, head, pre, post, cfg):
        """-> [(class, text)]"""
        kv = kvs(t[1:])
        res = head[-1]
        out = []
        # 1. an incoming packet that cannot be fully applied is acknowledged with an error and has no effect
        if t[0] == "recv" and res in ("ack=ok", "ack=err"):
            why, src, asset, rcpt, amt, key = recv_facts(cfg, pre, kv)
            if why and res == "ack=ok":
                out.append(("unapplicable packet acknowledged as success", ", ".join(why)))
            if res == "ack=err":
                diff = self.ledger_diff(pre, post)
                if diff:
                    # (the escrow movement of such an op is part of this failure, not a second one)
                    return [("failed receive changed state", "; ".join(diff))]
            if res == "ack=ok" and src and amt is not None:
                # 2. never release more than is escrowed
                have = pre.esc.get(key, 0)
                credited = sum(post.bal.get((a, asset), 0) - pre.bal.get((a, asset), 0) for a in ACCTS)
                if amt > have or credited > have:
                    out.append(("released more than escrowed", "%d of %s from channel %d holding %d" % (
                        max(amt, credited), asset, key[0], have)))
        if t[0] in ("ack", "timeout") and res == "ok":
            p = self.refund_packet(t, kv)
            if p is not None and (t[0] == "timeout" or kv.get("res") == "err"):
                d, amt, sp, sc = p
                if not has_prefix(d, sp, sc):
                    have = pre.esc.get((sc, show(d)), 0)
                    credited = sum(post.bal.get((a, show(d)), 0) - pre.bal.get((a, show(d)), 0) for a in ACCTS)
                    if amt > have or credited > have:
                        out.append(("released more than escrowed", "refund of %d of %s from channel %d holding %d" % (
                            max(amt, credited), show(d), sc, have)))
        # 3. escrow identity, one step: escrow of every (channel, sequencer-origin asset) moves by exactly
        #    what was sent out / returned / refunded by this op
        exp = self.expected_escrow_delta(t, head, pre, cfg)
        keys = set(pre.esc) | set(post.esc) | set(exp)
        for (c, ds) in sorted(keys):
            try:
                d = parse_denom(ds)
            except ValueError:
                continue
            if c not in cfg.chans or not origin(c, d):
                continue
            got = post.esc.get((c, ds), 0) - pre.esc.get((c, ds), 0)
            want = exp.get((c, ds), 0)
            if got != want:
                out.append(("escrow identity", "escrow(channel-%d, %s) moved by %d, history says %d" % (c, ds, got, want)))
        return out

    @staticmethod
    def ledger_diff(pre, post):
        diff = []
        for k in sorted(set(pre.bal) | set(post.bal)):
            if pre.bal.get(k, 0) != post.bal.get(k, 0):
                diff.append("bal %s %s %d->%d" % (k[0], k[1], pre.bal.get(k, 0), post.bal.get(k, 0)))
        for k in sorted(set(pre.esc) | set(post.esc)):
            if pre.esc.get(k, 0) != post.esc.get(k, 0):
                diff.append("esc %d %s %d->%d" % (k[0], k[1], pre.esc.get(k, 0), post.esc.get(k, 0)))
        if pre.dep != post.dep:
            diff.append("deposits %d->%d" % (len(pre.dep), len(post.dep)))
        if pre.ev != post.ev:
            diff.append("deposit events %d->%d" % (len(pre.ev), len(post.ev)))
        return diff

    # the withdrawals of the case being monitored (id -> kv), needed to interpret `pkt=` references
    _wds = {}

    # -- known findings -------------------------------------------------------------------------
    def classify(self, what, case, impl_lines):
        parts = what.split(": ", 2)
        if len(parts) < 3 or not parts[1].startswith("op "):
            return None
        cls, body = parts[0], parts[2]
        try:
            i = int(parts[1][3:])
        except ValueError:
            return None
        self._wds = {kvs(l.split()[1:]).get("id"): kvs(l.split()[1:]) for l in case[1:] if l.startswith("wd ")}
        rec = next((r for r in self.walk(case, impl_lines) if r[0] == i), None)
        if rec is None:
            return None
        _, t, head, dirty, pre, post, cfg = rec
        if pre is None or post is None:
            return None
        kv = kvs(t[1:])
        if cls == "failed receive changed state" and t[0] == "recv" and head[-1] == "ack=err":
            return self.findings_text(F5_ID, F5_TEXT) if self.is_f5(kv, pre, post, cfg) else None
        if cls == "escrow identity" and t[0] == "wd" and head[-1] == "ok" and kv.get("denom", "").startswith("ibc:"):
            # F8: the only thing wrong is that the escrow of the withdrawn origin asset did not move
            d, _ = denom_token(kv["denom"])
            c = int(kv["chan"])
            want = "escrow(channel-%d, %s) moved by 0, history says %d" % (c, show(d), int(kv["amt"]))
            if origin(c, d) and body.split(" [", 1)[0] == want and len(self.check_op(t, head, pre, post, cfg)) == 1:
                return self.findings_text(F8_ID, F8_TEXT)
        return None

    def is_f5(self, kv, pre, post, cfg):
        """exactly the recorded class: every earlier step of receive_tokens passes, the packet fails on insufficient
        escrow (bridge recipient) or on credit overflow, and the only things changed are the deposit + event of the
        bridge recipient and/or the escrow decrease of the source-zone asset"""
        why, src, asset, rcpt, amt, key = recv_facts(cfg, pre, kv)
        if not why or any(w not in ("insufficient escrow", "overflow") for w in why):
            return False
        to_bridge = rcpt in cfg.bridges
        if "insufficient escrow" in why and not to_bridge:
            return False
        exp = Obs()
        exp.bal, exp.esc, exp.dep, exp.ev = dict(pre.bal), dict(pre.esc), list(pre.dep), list(pre.ev)
        if to_bridge:
            b = cfg.bridges[rcpt]
            rec = (b["rollup"], rcpt, str(amt), asset, dep_memo(kv["memo"])[1])
            # cached deposits are dumped grouped by rollup
            exp.dep = self.insert_dep(exp.dep, rec)
            exp.ev = exp.ev + [rec]
        if src and "insufficient escrow" not in why:
            v = exp.esc.get(key, 0) - amt
            if v:
                exp.esc[key] = v
            else:
                exp.esc.pop(key, None)
        return exp.same_ledger(post)

    @staticmethod
    def insert_dep(deps, rec):
        """position of a new deposit in the dump (grouped by rollup id, arrival order inside a group)"""
        out = list(deps)
        k = len(out)
        for j, r in enumerate(out):
            if int(r[0][1:]) > int(rec[0][1:]):
                k = j
                break
        out.insert(k, rec)
        return out

    @staticmethod
    def findings_text(fid, default):
        p = os.path.join(VERIF, "known_findings.json")
        try:
            for f in json.load(open(p))["findings"]:
                if f["property"] == "C18" and f.get("id") == fid and f.get("status") == "known":
                    return f["what"]
        except (OSError, ValueError, KeyError):
            pass
        return default

    # -- shrinking: only the operations are removed, the set-up stays; bounded number of harness runs ----------
    _shrinks = 0

    def shrink(self, case, kind):
        from common import ddmin
        self._shrinks += 1
        if self._shrinks > 3 or "dump" not in case:
            return case
        k = case.index("dump")
        head, ops = case[:k + 1], case[k + 1:]

        def fails(sub):
            try:
                r = self.evaluate([head + sub])
            except Exception:
                return False
            return any(kk == kind and not self.classify(w, head + sub, r[0][1]) for kk, w in r[0][3])
        try:
            return head + ddmin(ops, fails, max_runs=16)
        except Exception:
            return case

    # -- bookkeeping ----------------------------------------------------------------------------
    def nontrivial(self, case, il):
        heads = [r[0] for r in parse_impl(il)]
        ops = [h for h in heads if h[0] in OPS]
        return len(ops) >= 3 and any(h[-1] in ("ok", "ack=ok") for h in ops)

    def stats(self, cases, impl):
        st = Counter()
        for case, il in zip(cases, impl):
            self._wds = {kvs(l.split()[1:]).get("id"): kvs(l.split()[1:]) for l in case[1:] if l.startswith("wd ")}
            for (i, t, head, dirty, pre, post, cfg) in self.walk(case, il):
                st["%s %s" % (t[0], head[-1])] += 1
                kv = kvs(t[1:])
                if t[0] == "recv" and pre is not None and head[-1].startswith("ack"):
                    why, src, asset, rcpt, amt, key = recv_facts(cfg, pre, kv)
                    for w in why:
                        st["recv cannot apply: " + w] += 1
                    if src:
                        st["recv source-zone"] += 1
                        if amt is not None:
                            have = pre.esc.get(key, 0)
                            st["recv amount vs escrow: " + ("=" if amt == have else "+1" if amt == have + 1 else
                                                            "-1" if amt == have - 1 else "<" if amt < have else ">")] += 1
                    if rcpt in (cfg.bridges if cfg else {}):
                        st["recv to bridge"] += 1
                if t[0] == "wd" and kv.get("denom", "").startswith("ibc:") and head[-1] == "ok":
                    st["wd ok in ibc/ form"] += 1
                if dirty is not None:
                    st["callback failed with dirty delta"] += 1
                if pre is not None and post is not None:
                    for cls, txt in self.check_op(t, head, pre, post, cfg):
                        what = "%s: op %d: %s [%s]" % (cls, i, txt, " ".join(t)[:200])
                        known = self.classify(what, case, il)
                        st["monitor: %s (%s)" % (cls, "known " + (F5_ID if known and " F5 " in known else F8_ID) if known else "NOT KNOWN")] += 1
        return dict(st)



CHECK = C18()
