"""C11 — relayer crash safety: model (coq/theories/Relayer/SubmissionModel.v, CrashModel.v) vs
crates/astria-sequencer-relayer.
  * file level (`case f*`): the real submission.rs types on a temp directory with crashes between
    calls, in the middle of the temp-file write, between temp write and rename;
  * system level (`case s*`): the real BlobSubmitter::run against an in-process Celestia app, with
    scripted BlobTx outcomes, late confirmations and kills (see relayer/write/verif.rs)."""
from collections import Counter

from common import CaseCheck, run_harness, run_model, split_cases

CRATE = "astria-sequencer-relayer"
TEST_FILE = "relayer::submission::verif::drive"
TEST_SYS = "relayer::write::verif::drive"
I63 = 2 ** 63 - 1
U64 = 2 ** 64 - 1
KS = ["none", "none", "none", "torn", "before", "after"]


def kvs(line):
    return dict(x.split("=", 1) for x in line.split()[1:] if "=" in x)


def is_sys(case):
    return case[0].split()[1].startswith("s")


def parse_state(s):
    """'started:c:l' -> ('started', c, l) ; 'prepared:h:c:l:tx' ; 'fresh' ; 'garbage' ; 'missing'"""
    t = s.split(":")
    return (t[0],) + tuple(int(x) for x in t[1:])


def last_of(st):
    if st[0] == "fresh":
        return 0
    if st[0] == "started":
        return st[2]
    if st[0] == "prepared":
        return st[3]
    return None


class C11(CaseCheck):
    pid = "C11"
    rule = ("file level: seeded histories of startup / fresh_into_started / prepare h tx k / confirm c k / revert k / crash on a "
            "temp directory, crash point k in {none, torn temp file, temp written but not renamed, after rename}, heights "
            "around the last completed one (equal, below, +1, far) and at 0 / 2^32 / 2^63-1, plus a malformed stream "
            "(garbage, empty, unknown state tag, missing hash, height 2^63, invalid prepared, deleted file, calls in the wrong "
            "state); system level: the real BlobSubmitter::run fed consecutive heights, every BlobTx outcome scripted (ok / "
            "error lost / error but landed / timeout lost / timeout but landed / no answer), confirmations at any later time "
            "(also of abandoned transactions), kill points after every scripted step, restart from the state file; "
            "non-trivial = a simulated crash inside a write followed by a restart, a refused transition, or (system) a "
            "kill/late confirmation/retry; distinct = distinct script text")
    assumptions = [
        "rename(2) within one directory is atomic and the only way the state file changes (no fsync: power-loss durability is "
        "outside the model)",
        "the `at` timestamp of a prepared file only shortens the confirmation timeout and is not modelled",
        "system level: a state-file write is one atomic step of the model (justified by the file-level theorems); tokio "
        "scheduling, real timeouts and gRPC retries are replaced by explicit events",
        "a BlobTx hash identifies its content (the locally computed hash equals the one Celestia reports)",
    ]

    # -- generation -----------------------------------------------------------------------------
    def gen(self, rng, tier):
        cases = []
        n = 400 if tier == "quick" else 10000
        for c in range(n):
            cases.append(self.gen_file(rng, c, malformed=(c % 5 == 4)))
        cases += self.gen_sys(rng, tier)
        return cases

    def gen_file(self, rng, c, malformed):
        """mostly-valid histories: a small simulation of (file, memory) keeps the next op applicable"""
        lines = ["case f%d" % c]
        big = rng.random() < 0.15
        base = rng.choice([0, 1, 7, 2 ** 32 - 1, 2 ** 32, I63 - 40]) if big else rng.randint(0, 50)

        def cel():
            return rng.choice([0, 1, rng.randint(0, 10 ** 6), 2 ** 32, I63, U64]) if big else rng.randint(0, 1000)
        r = rng.random()
        if r < 0.4:
            lines.append("raw fresh")
            file = ("fresh",)
        elif r < 0.9:
            lines.append("raw started %d %d" % (cel(), base))
            file = ("started", base)
        else:
            h = base + rng.randint(1, 5)
            lines.append("raw prepared %d %d %d %d" % (h, cel(), base, rng.randint(0, 99)))
            file = ("prepared", h, base)
        mem = None
        tx = 100
        for _ in range(rng.randint(4, 30)):
            tx += 1
            if malformed and rng.random() < 0.15:
                kind = rng.choice(["garbage", "empty", "badstate", "nohash", "bigheight", "missing", "prepared-bad", "fresh",
                                   "started", "wrongstate"])
                if kind == "prepared-bad":
                    l = rng.randint(0, 60)
                    lines.append("raw prepared %d %d %d %d" % (rng.choice([l, max(0, l - 1), 0]), cel(), l, tx))
                    file = ("bad",)
                elif kind == "started":
                    l = rng.randint(0, 60)
                    lines.append("raw started %d %d" % (cel(), l))
                    file = ("started", l)
                elif kind == "fresh":
                    lines.append("raw fresh")
                    file = ("fresh",)
                elif kind == "wrongstate":
                    lines.append(rng.choice(["confirm 5 none", "revert none", "fresh_into_started", "prepare 9 %d none" % tx]))
                    mem = None if lines[-1].split()[0] in ("confirm", "revert") and mem and mem[0] == "prepared" else mem
                    if mem is None:
                        lines.append("crash")
                else:
                    lines.append("raw " + kind)
                    file = ("bad",)
                continue
            k = rng.choice(KS)
            if mem is None:
                lines.append("startup")
                if file[0] == "bad":
                    l = rng.randint(0, 60)
                    lines.append("raw started %d %d" % (cel(), l))
                    file = ("started", l)
                else:
                    mem = file
            elif mem[0] == "fresh":
                lines.append("fresh_into_started")
                mem = ("started", 0)
            elif mem[0] == "started":
                if rng.random() < 0.12:
                    lines.append("crash")
                    mem = None
                    continue
                last = mem[1]
                d = rng.choice([1, 1, 1, 1, 2, 3, 10, 0, -1, 1000])
                h = min(I63, max(0, last + d))
                lines.append("prepare %d %d %s" % (h, tx, k))
                if h > last:
                    if k in ("none", "after"):
                        file = ("prepared", h, last)
                    mem = ("prepared", h, last) if k == "none" else None
            else:
                if rng.random() < 0.12:
                    lines.append("crash")
                    mem = None
                    continue
                _, h, last = mem
                if rng.random() < 0.65:
                    lines.append("confirm %d %s" % (cel(), k))
                    new = ("started", h)
                else:
                    lines.append("revert %s" % k)
                    new = ("started", last)
                if k in ("none", "after"):
                    file = new
                mem = new if k == "none" else None
        lines.append("startup")
        return lines

    def gen_sys(self, rng, tier):
        """scenarios for the real BlobSubmitter::run; the number of BlobTx a scenario produces depends on
        timing, so confirmations address the newest / oldest pending transaction"""
        cases = []
        n = 40 if tier == "quick" else 800
        for c in range(n):
            init = rng.choice(["fresh", "fresh", "started:%d:%d" % (rng.randint(0, 50), rng.randint(0, 30)),
                               "prepared:%d:%d:%d" % (rng.randint(6, 9), rng.randint(0, 50), rng.randint(0, 5))])
            lines = ["case s%d init=%s vary=%d" % (c, init, c % 2)]
            cel = [100]

            def ch():
                cel[0] += rng.randint(1, 3)
                return cel[0]
            lines.append("start")
            if init.startswith("prepared"):
                # the previous session's transaction is unknown to this Celestia: the relayer must revert
                lines.append("until started 70000")
            running = True
            for _ in range(rng.randint(2, 6) if tier == "quick" else rng.randint(2, 10)):
                if not running:
                    if rng.random() < 0.5:
                        lines.append("confirm %s %d" % (rng.choice(["last", "oldest"]), ch()))
                    lines.append("start")
                    running = True
                    if rng.random() < 0.7:
                        lines.append("until started 70000")
                    continue
                r = rng.random()
                lines.append("fetch %d" % rng.randint(1, 4))
                if r < 0.30:      # plain round
                    lines += ["plan ok", "until bcast 30000", "confirm last %d" % ch(), "until started 20000"]
                elif r < 0.45:    # errors first, then ok
                    lines.append("plan " + " ".join(rng.choice(["err", "errl", "rej", "to", "tol"]) for _ in range(rng.randint(1, 3))) + " ok")
                    if rng.random() < 0.4:
                        lines.append("prepfail %d" % rng.randint(1, 2))
                    for _ in range(rng.randint(1, 4)):
                        lines.append("until bcast 80000")
                        if rng.random() < 0.4:
                            lines.append("confirm %s %d" % (rng.choice(["last", "oldest"]), ch()))
                    lines += ["confirm last %d" % ch(), "until started 80000"]
                elif r < 0.60:    # timed-out broadcast that did land: next attempt must pick it up (or not, if confirmed late)
                    lines += ["plan tol", "until bcast 30000"]
                    if rng.random() < 0.6:
                        lines += ["confirm last %d" % ch(), "until started 80000"]
                    else:
                        lines += ["until bcast 80000", "confirm oldest %d" % ch(), "run 3000", "confirm last %d" % ch(),
                                  "until started 80000"]
                elif r < 0.80:    # kill while the BlobTx is in flight / unanswered
                    lines += ["plan " + rng.choice(["hang", "hangl", "hangl", "ok", "tol", "errl"]), "until bcast 30000"]
                    if rng.random() < 0.5:
                        lines.append("run %d" % rng.choice([10, 500, 1500, 6000]))
                    lines.append("crash")
                    running = False
                else:             # kill at an arbitrary moment
                    lines += ["plan " + rng.choice(["ok", "ok", "err", "tol"]), "run %d" % rng.choice([10, 30, 100, 400, 1100, 2500])]
                    if rng.random() < 0.5:
                        lines.append("confirm last %d" % ch())
                        lines.append("run %d" % rng.choice([10, 600, 1200]))
                    lines.append("crash")
                    running = False
            # drain: everything fed so far gets submitted and confirmed
            if not running:
                lines.append("start")
            lines.append("run 70000")
            for _ in range(4):
                lines += ["confirm oldest %d" % ch(), "confirm last %d" % ch(), "until started 20000", "until bcast 15000"]
            lines += ["confirm last %d" % ch(), "run 15000"]
            cases.append(lines)
        return cases

    # -- execution ------------------------------------------------------------------------------
    def impl(self, cases):
        out = [None] * len(cases)
        for sys_flag, test, tag in ((False, TEST_FILE, "c11f"), (True, TEST_SYS, "c11s")):
            idx = [i for i, c in enumerate(cases) if is_sys(c) == sys_flag]
            if not idx:
                continue
            text = "\n".join("\n".join(cases[i]) for i in idx) + "\n"
            res = split_cases(run_harness(CRATE, test, text, tag, timeout=7200))
            if len(res) != len(idx):
                return res   # length mismatch is reported by the caller
            for i, r in zip(idx, res):
                out[i] = r
        return out

    def model_all(self, cases, impl):
        # file-level cases: the model runs the script; system-level: it replays the observed trace
        text = "\n".join("\n".join(il if is_sys(c) else c) for c, il in zip(cases, impl)) + "\n"
        return split_cases(run_model("c11", text))

    def canon(self, lines):
        if lines and lines[0].split()[1].startswith("s"):
            return [" ".join(t for t in l.split() if not t.startswith("ev=")) for l in lines]
        return lines

    # -- the property on the implementation's observations alone -------------------------------------
    def monitor(self, case, il):
        if is_sys(case):
            return self.monitor_sys(case, il)
        fails = []
        trusted = False     # the state file was last written by the relayer itself / known readable
        prev_main = None
        pending = None      # (h, c, l) of the in-memory prepared state
        for cmd, l in zip(case[1:], il[1:]):
            t = cmd.split()
            if "panic" in l.split():
                fails.append("panic at %r" % cmd)
                continue
            kv = kvs(l)
            main = parse_state(kv["main"])
            if t[0] == "raw":
                trusted = False
            elif t[0] == "startup":
                if kv["res"] == "ok":
                    trusted = True
                    want = "none" if main[0] == "fresh" else str(last_of(main))
                    if kv["last"] != want:
                        fails.append("restart point wrong: resumes after height %s but the state file's last completed height is %s" % (kv["last"], want))
                    if main[0] == "prepared" and not main[1] > main[3]:
                        fails.append("invalid prepared state accepted: height %d <= last %d" % (main[1], main[3]))
                elif trusted:
                    fails.append("state file unreadable after a crash: %r -> %s (file: %s)" % (cmd, l, kv["main"]))
            elif t[0] in ("prepare", "confirm", "revert") and kv["res"] == "ok" and prev_main is not None and trusted:
                old = prev_main
                if main[0] in ("garbage", "missing"):
                    fails.append("state file destroyed: %s left it %s" % (cmd, main[0]))
                elif main != old:
                    # the file changed: it may only record what this transition is allowed to record
                    if t[0] == "prepare":
                        ok = main[0] == "prepared" and main[1] == int(t[1]) and last_of(main) == last_of(old) and main[1] > main[3]
                    elif t[0] == "confirm":
                        ok = main[0] == "started" and old[0] == "prepared" and main[2] == old[1] and main[1] == int(t[1])
                    else:
                        ok = main[0] == "started" and old[0] == "prepared" and (main[1], main[2]) == (old[2], old[3])
                    if not ok:
                        fails.append("state file records what did not happen: %s changed it from %s to %s" % (cmd, ":".join(map(str, old)), kv["main"]))
                elif t[-1] in ("none", "after"):
                    if not (t[0] == "revert" and old[0] == "started"):
                        fails.append("transition not persisted: %s completed but the state file still holds %s" % (cmd, kv["main"]))
            if t[0] in ("prepare", "confirm", "revert") and kv["res"] == "err" and prev_main is not None and main != prev_main:
                fails.append("state file records what did not happen: refused %s changed it" % cmd)
            prev_main = main
        return fails

    def monitor_sys(self, case, il):
        """no gap / file truthful / file readable, evaluated on what the harness's Celestia holds and on the
        state file, after every scripted step"""
        fails = []
        init = kvs(case[0]).get("init", "fresh")
        st0 = parse_state(init + (":0" if init.startswith("prepared") else ""))
        base = last_of(st0)
        for cmd, l in zip(case[1:], il[1:]):
            if "panic" in l.split():
                fails.append("panic at %r" % cmd)
                continue
            kv = kvs(l)
            if l.startswith("start ") and kv.get("res") == "err":
                fails.append("relayer cannot restart: state file unreadable (%s)" % kv.get("file"))
            confirmed = set()
            if kv.get("txs", "-") != "-":
                for t in kv["txs"].split(","):
                    _, hs, st = t.split(":")
                    if st.startswith("c"):
                        confirmed |= {int(h) for h in hs.split("+") if h}
            if confirmed:
                top = max(confirmed)
                missing = [k for k in range(base + 1, top + 1) if k not in confirmed]
                if missing:
                    fails.append("gap on Celestia: heights %s not confirmed although %d is (first relayed height %d)"
                                 % (missing[:5], top, base + 1))
            f = kv.get("file", "")
            if f.split(":")[0] in ("started", "prepared"):
                fl = parse_state(":".join(f.split(":")[:4]) + (":0" if f.startswith("prepared") else ""))
                lastc = last_of(fl)
                missing = [k for k in range(base + 1, lastc + 1) if k not in confirmed]
                if missing:
                    fails.append("state file not truthful: %s records height %d as completed but %s are not confirmed on Celestia"
                                 % (f, lastc, missing[:5]))
            elif f in ("garbage", "missing"):
                fails.append("state file destroyed: %s after %r" % (f, cmd))
        return fails

    def nontrivial(self, case, il):
        if is_sys(case):
            return any(l.startswith("crash") for l in case) or any("plan" in l and l.split()[1] != "ok" for l in case)
        crashy = False
        for cmd, l in zip(case[1:], il[1:]):
            t = cmd.split()
            if t[-1] in ("torn", "before", "after") and "res=ok" in l:
                crashy = True
            if crashy and t[0] == "startup":
                return True
            if t[0] == "prepare" and "res=err" in l:
                return True
        return False

    def stats(self, cases, impl):
        c = Counter()
        for case, il in zip(cases, impl):
            kind = "sys" if is_sys(case) else "file"
            c[kind + "_cases"] += 1
            prepared_at_start = None
            for cmd, l in zip(case[1:], il[1:]):
                t = cmd.split()
                kv = kvs(l)
                res = kv.get("res", "-")
                if kind == "file":
                    key = "file_%s_%s" % (t[0], res)
                    if t[0] in ("prepare", "confirm", "revert"):
                        key += "_" + t[-1]
                    c[key] += 1
                    continue
                c["sys_%s%s" % (t[0], "" if res == "-" else "_" + res)] += 1
                f = kv.get("file", "")
                for e in kv.get("ev", "-").split(";"):
                    p = e.split(":")
                    if p[0] == "bcast":
                        c["sys_blobtx_" + p[3]] += 1
                    elif p[0] in ("gettx", "prepfail", "exit"):
                        c["sys_ev_" + p[0]] += 1
                    elif p[0] == "file" and p[1] == "started" and prepared_at_start:
                        h, l0 = prepared_at_start
                        c["sys_restart_prepared_" + ("confirmed" if p[3] == h else "reverted")] += 1
                        prepared_at_start = None
                if t[0] == "start" and f.startswith("prepared"):
                    prepared_at_start = (f.split(":")[1], f.split(":")[3])
                    c["sys_restart_with_prepared_file"] += 1
                if t[0] == "crash":
                    c["sys_kill_while_" + f.split(":")[0]] += 1
                if t[0] == "confirm" and res == "ok" and f.startswith("prepared") and f.split(":")[-1] != kv.get("idx"):
                    c["sys_late_confirmation_of_abandoned_tx"] += 1
        return dict(c)


CHECK = C11()
