"""C12 — relayer batching: model (coq/theories/Relayer/Batch*.v) vs
crates/astria-sequencer-relayer (write/conversion.rs + the pending-block hand-over of
BlobSubmitter::run), with real SequencerBlocks and conductor-style decoding of the blobs."""
from collections import Counter

from common import CaseCheck, run_harness, run_model, split_cases

MAX = 1_000_000
CRATE = "astria-sequencer-relayer"
TEST = "relayer::write::conversion::verif::drive"


def kvs(line):
    return dict(x.split("=", 1) for x in line.split()[1:] if "=" in x)


class C12(CaseCheck):
    pid = "C12"
    rule = ("seeded scripts `recv <height> <rollup:nbytes:seed,...>` / `take` on a fresh BlobSubmitter with a rollup filter "
            "(none / subset / only-absent ids); small streams (0-4 rollup items per block, 0-6 rollups, takes interleaved, "
            "also repeated and out-of-order heights) and large streams of incompressible (ChaCha) or highly compressible "
            "data tuned around MAX_PAYLOAD_SIZE_BYTES with a calibration run (single block at MAX-2000..MAX+200, pairs and "
            "triples whose sum crosses the limit, big filtered-out rollups, oversized single block, oversized pending block); "
            "every script ends by draining; non-trivial = a refusal (full/oversized), a filter that drops data, or >= 2 "
            "non-empty submissions; distinct = distinct script text")
    assumptions = [
        "the compressed size of a candidate payload is an input of the model (taken from the real brotli output)",
        "a rollup's Celestia namespace is identified with its rollup id (no 10-byte prefix collision among the ids used)",
        "block content tokens are SHA-256 digests of the raw protobuf the conductor must get back, built from the "
        "SequencerBlock accessors (not through split_for_celestia)",
        "brotli / prost / Blob::new errors (TryIntoPayloadError) are not modelled; the harness reports them as res=err",
    ]

    # -- generation -----------------------------------------------------------------------------
    def calibrate(self):
        """overhead of one block with N incompressible bytes for one rollup: csize - N"""
        n = 200_000
        out = run_harness(CRATE, TEST, "case cal filter=-\nrecv 1 1:%d:77\n" % n, "c12cal")
        return int(kvs(out[1])["csize"]) - n

    def gen(self, rng, tier):
        cases = []
        seedc = [1000]

        def seed():
            seedc[0] += 1
            return seedc[0]

        def filt():
            r = rng.random()
            if r < 0.35:
                return "-"
            if r < 0.45:
                return "9"                      # names a rollup that never occurs: everything is dropped
            k = rng.randint(1, 3)
            return ",".join(str(x) for x in sorted(rng.sample(range(1, 7), k)))

        # ---- small streams
        nsmall = 150 if tier == "quick" else 3000
        for c in range(nsmall):
            lines = ["case s%d filter=%s" % (c, filt())]
            h = rng.randint(1, 50)
            malformed = rng.random() < 0.1
            for _ in range(rng.randint(1, 14 if tier == "quick" else 30)):
                if rng.random() < 0.2:
                    lines.append("take")
                    continue
                items = []
                for _ in range(rng.choice([0, 1, 1, 2, 2, 3, 4])):
                    items.append("%d:%d:%d" % (rng.randint(1, 6), rng.choice([0, 1, 5, 40, 300]),
                                                 rng.choice([0, seed()])))
                lines.append("recv %d %s" % (h, ",".join(items) or "-"))
                if malformed:
                    h = max(1, h + rng.choice([-1, 0, 0, 1, 2]))
                else:
                    h += rng.choice([1, 1, 1, 2, 7])
            lines += ["take", "take", "take"]
            cases.append(lines)

        # ---- large streams around the limit
        ov = self.calibrate()
        self.overhead = ov
        fit = MAX - ov               # a single block with this many random bytes is about exactly at the limit

        def big(name, f, blocks, takes_between=False):
            lines = ["case %s filter=%s" % (name, f)]
            h = rng.randint(1, 1000)
            for items in blocks:
                if items == "take":
                    lines.append("take")
                    continue
                lines.append("recv %d %s" % (h, ",".join("%d:%d:%d" % (r, n, (seed() if s else 0)) for r, n, s in items) or "-"))
                h += 1
                if takes_between and rng.random() < 0.3:
                    lines.append("take")
            lines += ["take", "take", "take"]
            cases.append(lines)

        deltas = [-2000, -200, -40, -6, -2, 0, 2, 6, 40, 200] if tier == "quick" else [-2000, -400, -60, -20, -6, -2, 0, 2, 6, 20, 60, 400, 2000]
        for d in deltas:                                   # single block at the limit
            big("one%+d" % d, "-", [[(1, fit + d, 1)], [(1, 10, 1)]])
        # pairs / triples crossing the limit, then a small one that fits again
        for d in ([-300, -20, 20, 300] if tier == "quick" else [-3000, -300, -30, -4, 4, 30, 300, 3000]):
            half = (MAX - 2 * ov) // 2 + ov // 2
            big("two%+d" % d, "-", [[(1, half, 1)], [(1, half + d, 1)], [(2, 100, 1)], [(1, half, 1)]])
        big("three", "-", [[(1, 330_000, 1)], [(2, 330_000, 1)], [(1, 330_000, 1)], [(3, 50, 1)], [(1, 330_000, 1)]])
        # pending block that is itself oversized once alone (refused as full, then run() dies)
        big("pend-oversized", "-", [[(1, 5000, 1)], [(1, fit + 300, 1)], [(1, 10, 1)]])
        # oversized first block
        big("oversized", "-", [[(1, fit + 1000, 1)], [(1, 10, 1)]])
        # a big rollup that is filtered out: everything fits; metadata must survive
        big("filtered-big", "2", [[(1, 700_000, 1), (2, 100, 1)], [(1, 700_000, 1), (2, 200, 1)], [(1, 50, 1)], [(2, 300_000, 0)]])
        # highly compressible: far more than 1 MB uncompressed fits
        big("compressible", "-", [[(1, 1_500_000, 0)], [(2, 800_000, 0)], [(1, 600_000, 1)], [(1, 500_000, 1)]])
        if True:
            for k in range(6 if tier == "quick" else 250):
                blocks = []
                for _ in range(rng.randint(2, 7)):
                    blocks.append([(rng.randint(1, 4), rng.choice([fit // 2 + rng.randint(-500, 500), fit // 3, fit // 4,
                                                                   100_000, fit + rng.randint(-300, 300), 5000]),
                                    rng.choice([1, 1, 1, 0]))
                                   for _ in range(rng.choice([1, 1, 2]))])
                big("rnd%d" % k, filt(), blocks, takes_between=True)
        return cases

    # -- execution ------------------------------------------------------------------------------
    def impl(self, cases):
        text = "\n".join("\n".join(c) for c in cases) + "\n"
        return split_cases(run_harness(CRATE, TEST, text, "c12", timeout=7200))

    def model_all(self, cases, impl):
        text = "\n".join("\n".join(il) for il in impl) + "\n"
        return split_cases(run_model("c12", text))

    def canon(self, lines):
        drop_recv = ("in=", "rd=", "csize=")
        drop_take = ("real=", "bad=", "csize2=")
        out = []
        for l in lines:
            t = l.split()
            drop = drop_recv if t[0] == "recv" else drop_take if t[0] == "take" else ()
            out.append(" ".join(x for x in t if not x.startswith(drop)) if drop else l)
        return out

    # -- the property on the implementation's observations alone -------------------------------------
    def monitor(self, case, il):
        fails = []
        f = kvs(case[0]).get("filter", "-")
        filt = set() if f == "-" else set(f.split(","))

        def included(r):
            return not filt or r in filt

        received = []     # (height, meta digest, [(rollup, digest)])
        emitted = 0       # number of received blocks already seen in submissions
        halted = False
        last_take_none = False
        for l in il[1:]:
            t = l.split()
            kv = kvs(l)
            if "panic" in t:
                fails.append("panic: %r" % l)
                continue
            if "halted" in t:
                continue
            if t[0] == "recv":
                last_take_none = False
                res = kv["res"]
                if res == "err":
                    fails.append("payload construction failed: %r" % l)
                if res in ("ok", "full", "oversized"):
                    rd = [] if kv["rd"] == "-" else [tuple(x.split(":")) for x in kv["rd"].split(",")]
                    received.append((kv["h"], kv["in"], rd))
                if res == "oversized":
                    halted = True
                    if int(kv["csize"]) <= MAX:
                        fails.append("relayer stopped on a block that fits: %r" % l)
                if res == "ok" and int(kv["csize"]) > MAX:
                    fails.append("block accepted above the maximum: %r" % l)
            elif t[0] == "take":
                if t[1] == "none":
                    last_take_none = True
                    continue
                last_take_none = False
                size, real, n = int(kv["size"]), int(kv["real"]), int(kv["nblocks"])
                if real > MAX:
                    fails.append("submission exceeds the maximum: %d compressed bytes > %d" % (real, MAX))
                if size != real:
                    fails.append("submission size misreported: reports %d compressed bytes but its blobs hold %d" % (size, real))
                if kv["bad"] != "-":
                    fails.append("conductor-side decoding failed: bad=%s" % kv["bad"])
                metas = [] if kv["meta"] == "-" else [m.split("/") for m in kv["meta"].split(",")]
                want = received[emitted:emitted + len(metas)]
                if n == 0 or len(metas) != n:
                    fails.append("metadata entries missing: submission with %d blocks decodes to %d metadata entries" % (n, len(metas)))
                if len(want) < len(metas):
                    fails.append("block submitted twice or never received: submission carries %d blocks but only %d received blocks were outstanding" % (len(metas), len(want)))
                    continue
                for m, w in zip(metas, want):
                    ids = "+".join(r for r, _ in w[2]) or "-"
                    if m[0] != w[0] or m[1] != w[1]:
                        fails.append("block order/identity: submission has height %s digest %s, expected the next received "
                                     "block height %s digest %s" % (m[0], m[1], w[0], w[1]))
                    elif m[2] != ids:
                        fails.append("metadata altered: height %s lists rollups %s, block has %s" % (m[0], m[2], ids))
                hs = [int(w[0]) for w in want]
                inc = all(int(a[0]) < int(b[0]) for a, b in zip(received, received[1:]))
                if inc and any(a >= b for a, b in zip(hs, hs[1:])):
                    fails.append("heights within a submission not increasing: %s" % hs)
                got = {} if kv["rd"] == "-" else dict((x.split(":")[0], x.split(":")[1].split("+")) for x in kv["rd"].split(","))
                exp = {}
                for w in want:
                    for r, d in w[2]:
                        if included(r):
                            exp.setdefault(r, []).append(d)
                # the conductor matches rollup data to metadata by block hash: order inside a blob is not part of
                # the property (the correspondence with the model still compares it)
                if {r: sorted(v) for r, v in got.items()} != {r: sorted(v) for r, v in exp.items()}:
                    fails.append("decoded rollup data differs from the included rollups' data of the blocks: got %s expected %s"
                                 % (sorted(got.items())[:4], sorted(exp.items())[:4]))
                if int(kv["nblobs"]) != 1 + len(exp):
                    fails.append("blob count wrong: %s, expected %d" % (kv["nblobs"], 1 + len(exp)))
                emitted += len(metas)
                if kv["readd"] == "oversized":
                    halted = True
                    if kv["csize2"] != "-" and int(kv["csize2"]) <= MAX:
                        fails.append("relayer stopped on a block that fits: pending block, csize2=%s" % kv["csize2"])
        if emitted > len(received):
            fails.append("block submitted twice or never received: %d submitted, %d received" % (emitted, len(received)))
        if last_take_none and not halted and emitted != len(received):
            fails.append("received blocks lost: %d received, %d submitted after draining" % (len(received), emitted))
        return fails

    def nontrivial(self, case, il):
        f = kvs(case[0]).get("filter", "-")
        subs = sum(1 for l in il if l.startswith("take size="))
        return any("res=full" in l or "res=oversized" in l or "readd=oversized" in l for l in il) or subs >= 2 or \
            (f != "-" and subs >= 1)

    def stats(self, cases, impl):
        c = Counter()
        sizes = []
        for il in impl:
            for l in il[1:]:
                t = l.split()
                if "halted" in t:
                    c[t[0] + "_halted"] += 1
                elif t[0] == "recv":
                    c["recv_" + kvs(l).get("res", "?")] += 1
                elif t[0] == "take":
                    if t[1] == "none":
                        c["take_none"] += 1
                    else:
                        kv = kvs(l)
                        c["take_sub"] += 1
                        c["readd_" + kv["readd"]] += 1
                        sizes.append(int(kv["real"]))
        d = dict(c)
        if sizes:
            d["max_submission_bytes"] = max(sizes)
            d["submissions_over_900k"] = sum(1 for s in sizes if s > 900_000)
        d["calibrated_overhead"] = getattr(self, "overhead", None)
        return d


CHECK = C12()
