"""C12 — relayer batching: model (coq/theories/Relayer/Batch*.v) vs
crates/astria-sequencer-relayer (write/conversion.rs + the pending-block hand-over of
BlobSubmitter::run), with real SequencerBlocks and conductor-style decoding of the blobs.
  * conversion level (all case names but `run*`): the batching pieces driven op by op
    (relayer/write/conversion/verif.rs);
  * run level (`case run*`): the real BlobSubmitter::run select loop against an in-process Celestia
    app (relayer/write/verif.rs, the C11 system hook + `feed` / `csizes`): blocks around the
    payload limit arrive while a submission is in flight and a Full-rejected block is parked."""
from collections import Counter

from common import CaseCheck, run_harness, run_model, split_cases

MAX = 1_000_000
CRATE = "astria-sequencer-relayer"
TEST = "relayer::write::conversion::verif::drive"
TEST_RUN = "relayer::write::verif::drive"
BIG = 600_000          # two of these (incompressible) do not fit one payload, one does


def kvs(line):
    return dict(x.split("=", 1) for x in line.split()[1:] if "=" in x)


def is_run(case):
    return case[0].split()[1].startswith("run")


def run_events(line):
    ev = kvs(line).get("ev", "-")
    return [] if ev == "-" else ev.split(";")


def run_submissions(il):
    """The submissions Celestia was sent, in order of first arrival.  A BlobTx carrying the same height list as
    the one before it is a retry of the same submission (possibly a new transaction: new fee, new hash) as long
    as the relayer has not recorded a completed submission in between.  Each entry: (heights, [tx indices])."""
    subs = []
    seen = set()
    completions = 0
    for l in il[1:]:
        for e in run_events(l):
            p = e.split(":")
            if e.startswith("file:started:"):
                completions += 1
            if p[0] != "bcast" or p[1] in seen:
                continue
            seen.add(p[1])
            hs = [int(h) for h in p[2].split("+") if h]
            if subs and subs[-1][0] == hs and subs[-1][2] == completions:
                subs[-1][1].append(p[1])
            else:
                subs.append((hs, [p[1]], completions))
    return [(hs, idx) for hs, idx, _ in subs]


class C12(CaseCheck):
    pid = "C12"
    rule = ("seeded scripts `recv <height> <rollup:nbytes:seed,...>` / `take` on a fresh BlobSubmitter with a rollup filter "
            "(none / subset / only-absent ids); small streams (0-4 rollup items per block, 0-6 rollups, takes interleaved, "
            "also repeated and out-of-order heights) and large streams of incompressible (ChaCha) or highly compressible "
            "data tuned around MAX_PAYLOAD_SIZE_BYTES with a calibration run (single block at MAX-2000..MAX+200, pairs and "
            "triples whose sum crosses the limit, big filtered-out rollups, oversized single block, oversized pending block); "
            "every script ends by draining; non-trivial = a refusal (full/oversized), a filter that drops data, or >= 2 "
            "non-empty submissions; distinct = distinct script text.  Run level (`case run*`): the real BlobSubmitter::run "
            "(spawned task, paused tokio clock, in-process Celestia app) is handed consecutive heights; a first submission is "
            "broadcast and its confirmation withheld, then two ~600 kB incompressible blocks (the second is refused as Full "
            "and parked in pending_block) and 1-3 further blocks (600 kB / a few bytes, in one hand-over or after a pause, "
            "optionally after an unanswered / timed-out BroadcastTx that is retried) arrive while it is in flight; then all "
            "submissions are confirmed one by one.  Monitor on what reached Celestia; correspondence = the run loop replayed "
            "on the model's step with the loop's priorities (finished submission, take, recv) and the real payload sizes "
            "(`csizes`), compared on the partition of heights into submissions; non-trivial (run) = >= 2 blocks were handed "
            "over while a submission was in flight and one of them could not join the open batch")
    assumptions = [
        "the compressed size of a candidate payload is an input of the model (taken from the real brotli output)",
        "a rollup's Celestia namespace is identified with its rollup id (no 10-byte prefix collision among the ids used)",
        "block content tokens are SHA-256 digests of the raw protobuf the conductor must get back, built from the "
        "SequencerBlock accessors (not through split_for_celestia)",
        "brotli / prost / Blob::new errors (TryIntoPayloadError) are not modelled; the harness reports them as res=err",
        "run level: tokio scheduling is replaced by the driver's 100 ms virtual-time steps; the scripts hand blocks over "
        "only while no submission can complete (confirmation withheld, or nothing in flight after a settling pause), so "
        "that the order of recv / take / completion in the loop is determined by the script; the model replay is skipped "
        "(monitor only) for a case whose trace does not show this discipline (an `until` that timed out, an exit)",
        "run level: a block's rollup data and proofs are not decoded again (conversion level does that); a submission is "
        "identified by the height list of its sequencer-namespace blob; BlobTxs repeating the previous height list are "
        "retries of the same submission",
    ]

    # -- generation -----------------------------------------------------------------------------
    def calibrate(self):
        """overhead of one block with N incompressible bytes for one rollup: csize - N"""
        n = 200_000
        out = run_harness(CRATE, TEST, "case cal filter=-\nrecv 1 1:%d:77\n" % n, "c12cal")
        return int(kvs(out[1])["csize"]) - n

    def gen(self, rng, tier):
        cases = []
        seedc = [1000]

        def seed():
            seedc[0] += 1
            return seedc[0]

        def filt():
            r = rng.random()
            if r < 0.35:
                return "-"
            if r < 0.45:
                return "9"                      # names a rollup that never occurs: everything is dropped
            k = rng.randint(1, 3)
            return ",".join(str(x) for x in sorted(rng.sample(range(1, 7), k)))

        # ---- small streams
        nsmall = 150 if tier == "quick" else 3000
        for c in range(nsmall):
            lines = ["case s%d filter=%s" % (c, filt())]
            h = rng.randint(1, 50)
            malformed = rng.random() < 0.1
            for _ in range(rng.randint(1, 14 if tier == "quick" else 30)):
                if rng.random() < 0.2:
                    lines.append("take")
                    continue
                items = []
                for _ in range(rng.choice([0, 1, 1, 2, 2, 3, 4])):
                    items.append("%d:%d:%d" % (rng.randint(1, 6), rng.choice([0, 1, 5, 40, 300]),
                                                 rng.choice([0, seed()])))
                lines.append("recv %d %s" % (h, ",".join(items) or "-"))
                if malformed:
                    h = max(1, h + rng.choice([-1, 0, 0, 1, 2]))
                else:
                    h += rng.choice([1, 1, 1, 2, 7])
            lines += ["take", "take", "take"]
            cases.append(lines)

        # ---- large streams around the limit
        ov = self.calibrate()
        self.overhead = ov
        fit = MAX - ov               # a single block with this many random bytes is about exactly at the limit

        def big(name, f, blocks, takes_between=False):
            lines = ["case %s filter=%s" % (name, f)]
            h = rng.randint(1, 1000)
            for items in blocks:
                if items == "take":
                    lines.append("take")
                    continue
                lines.append("recv %d %s" % (h, ",".join("%d:%d:%d" % (r, n, (seed() if s else 0)) for r, n, s in items) or "-"))
                h += 1
                if takes_between and rng.random() < 0.3:
                    lines.append("take")
            lines += ["take", "take", "take"]
            cases.append(lines)

        deltas = [-2000, -200, -40, -6, -2, 0, 2, 6, 40, 200] if tier == "quick" else [-2000, -400, -60, -20, -6, -2, 0, 2, 6, 20, 60, 400, 2000]
        for d in deltas:                                   # single block at the limit
            big("one%+d" % d, "-", [[(1, fit + d, 1)], [(1, 10, 1)]])
        # pairs / triples crossing the limit, then a small one that fits again
        for d in ([-300, -20, 20, 300] if tier == "quick" else [-3000, -300, -30, -4, 4, 30, 300, 3000]):
            half = (MAX - 2 * ov) // 2 + ov // 2
            big("two%+d" % d, "-", [[(1, half, 1)], [(1, half + d, 1)], [(2, 100, 1)], [(1, half, 1)]])
        big("three", "-", [[(1, 330_000, 1)], [(2, 330_000, 1)], [(1, 330_000, 1)], [(3, 50, 1)], [(1, 330_000, 1)]])
        # pending block that is itself oversized once alone (refused as full, then run() dies)
        big("pend-oversized", "-", [[(1, 5000, 1)], [(1, fit + 300, 1)], [(1, 10, 1)]])
        # oversized first block
        big("oversized", "-", [[(1, fit + 1000, 1)], [(1, 10, 1)]])
        # a big rollup that is filtered out: everything fits; metadata must survive
        big("filtered-big", "2", [[(1, 700_000, 1), (2, 100, 1)], [(1, 700_000, 1), (2, 200, 1)], [(1, 50, 1)], [(2, 300_000, 0)]])
        # highly compressible: far more than 1 MB uncompressed fits
        big("compressible", "-", [[(1, 1_500_000, 0)], [(2, 800_000, 0)], [(1, 600_000, 1)], [(1, 500_000, 1)]])
        if True:
            for k in range(6 if tier == "quick" else 250):
                blocks = []
                for _ in range(rng.randint(2, 7)):
                    blocks.append([(rng.randint(1, 4), rng.choice([fit // 2 + rng.randint(-500, 500), fit // 3, fit // 4,
                                                                   100_000, fit + rng.randint(-300, 300), 5000]),
                                    rng.choice([1, 1, 1, 0]))
                                   for _ in range(rng.choice([1, 1, 2]))])
                big("rnd%d" % k, filt(), blocks, takes_between=True)
        cases += self.gen_run(rng, tier, seed)
        return cases

    def gen_run(self, rng, tier, seed):
        """scenarios for the real BlobSubmitter::run (hook relayer/write/verif.rs)"""
        cases = []

        def spec(kind):
            if kind == "B":
                return "%d:%d" % (BIG + rng.randint(-20_000, 20_000), seed())
            if kind == "m":
                return "%d:%d" % (rng.choice([150_000, 250_000, 350_000]), seed())
            return "%d:%d" % (rng.choice([1, 40, 2000]), seed())

        def scenario(name, init, first, parked, later, split, plan, more=""):
            """first: the block(s) of the submission whose confirmation is withheld; parked: blocks handed over while
            it is in flight (BB: the second does not fit and is parked); later: 1-3 further blocks; split: hand `later`
            over after a pause instead of together with `parked`; plan: outcomes of the first BroadcastTx calls;
            more: blocks handed over after the first submission completed (the next one is in flight by then)"""
            lines = ["case run%s init=%s vary=%d" % (name, init, rng.randint(0, 1)), "start"]
            if plan:
                lines.append("plan " + plan)
            lines += ["feed " + " ".join(spec(k) for k in first), "until bcast 30000"]
            if split:
                lines += ["feed " + " ".join(spec(k) for k in parked), "run %d" % rng.choice([300, 1000, 2500]),
                          "feed " + " ".join(spec(k) for k in later)]
            else:
                lines.append("feed " + " ".join(spec(k) for k in parked + later))
            n = len(first) + len(parked) + len(later) + len(more)
            lines.append("run %d" % rng.choice([500, 1500, 3000]))
            # release: one submission after the other is confirmed (a round is wasted while a lost BlobTx is retried)
            for k in range(n + 2):
                lines += ["confirm last %d" % (100 + 3 * k + rng.randint(0, 2)), "until started 90000", "run 500"]
                if k == 0 and more:
                    lines += ["feed " + " ".join(spec(x) for x in more), "run 1000"]
            lines += ["run 5000", "csizes"]
            return lines

        fixed = [   # name, init, first, parked, later, split, plan
            ("0", "fresh", "s", "BB", "B", False, ""),            # pending overwritten -> a block lost
            ("1", "fresh", "s", "BB", "s", True, ""),             # small block overtakes the parked one
            ("2", "started:7:20", "B", "BB", "sB", False, "", "Bs"),
            ("3", "fresh", "s", "BB", "Bs", True, "hang"),        # first BroadcastTx unanswered, lost, retried
        ]
        for f in fixed:
            cases.append(scenario(*f))
        nrand = 1 if tier == "quick" else 40
        for k in range(nrand):
            init = rng.choice(["fresh", "started:%d:%d" % (rng.randint(1, 90), rng.randint(1, 500))])
            first = rng.choice(["s", "B", "ss", "m"])
            parked = rng.choice(["BB", "BB", "mBB", "sBB", "BmB", "mmB"])
            later = "".join(rng.choice("BBsm") for _ in range(rng.randint(1, 3)))
            plan = rng.choice(["", "", "", "hang", "tol", "err", "to"])
            more = "".join(rng.choice("Bsm") for _ in range(rng.choice([0, 0, 1, 2])))
            cases.append(scenario("x%d" % k, init, first, parked, later, rng.random() < 0.5, plan, more))
        return cases

    # -- execution ------------------------------------------------------------------------------
    def impl(self, cases):
        out = [None] * len(cases)
        for run_flag, test, tag in ((False, TEST, "c12"), (True, TEST_RUN, "c12r")):
            idx = [i for i, c in enumerate(cases) if is_run(c) == run_flag]
            if not idx:
                continue
            text = "\n".join("\n".join(cases[i]) for i in idx) + "\n"
            res = split_cases(run_harness(CRATE, test, text, tag, timeout=7200))
            if len(res) != len(idx):
                return res   # length mismatch is reported by the caller
            for i, r in zip(idx, res):
                out[i] = r
        return out

    def run_disciplined(self, case, il):
        """the trace shows the script's assumption: whenever blocks are handed over, no submission can complete
        (every BlobTx confirmed on Celestia so far has been seen completing by the relayer: as many `started` writes of
        the state file as successful `confirm`s), the submitter did not exit, nothing panicked"""
        if len(il) != len(case) or not il[-1].startswith("csizes ") or kvs(case[0]).get("init", "fresh").startswith("prepared"):
            return False
        confirms = completions = 0
        for l in il[1:]:
            if "panic" in l.split():
                return False
            ev = run_events(l)
            if any(e.startswith("exit:") for e in ev) or l.startswith("crash"):
                return False
            if l.startswith(("feed ", "fetch ")) and (ev or confirms != completions):
                return False
            completions += sum(1 for e in ev if e.startswith("file:started:"))
            if l.startswith("confirm ") and kvs(l).get("res") == "ok":
                confirms += 1
        return True

    def run_model_input(self, case, il):
        """the model's view of a run-level trace: payload size classes, hand-overs, completions"""
        lines = [il[0], "sizes " + il[-1].split()[1]]
        for l in il[1:]:
            t = l.split()
            # a completion noticed in the same step as a hand-over comes first (the loop looks at the
            # submission in flight before it looks at the channel); run_disciplined excludes it anyway
            for e in run_events(l):
                if e.startswith("file:started:"):
                    lines.append("done")
            if t[0] in ("feed", "fetch"):
                kv = kvs(l)
                n, first = int(kv["n"]), int(kv["first"])
                if n:
                    lines.append("feed " + " ".join(str(first + k) for k in range(n)))
        return lines

    def model_all(self, cases, impl):
        blocks, skipped = [], set()
        for i, (c, il) in enumerate(zip(cases, impl)):
            if not is_run(c):
                blocks.append(il)
            elif self.run_disciplined(c, il):
                blocks.append(self.run_model_input(c, il))
            else:
                skipped.add(i)
        text = "\n".join("\n".join(b) for b in blocks) + "\n"
        res = iter(split_cases(run_model("c12", text)))
        return [None if i in skipped else next(res) for i in range(len(cases))]

    def canon(self, lines):
        if lines and lines[0].split()[1].startswith("run"):
            return [lines[0]] + ["sub " + "+".join(map(str, hs)) for hs, _ in run_submissions(lines)]
        drop_recv = ("in=", "rd=", "csize=")
        drop_take = ("real=", "bad=", "csize2=")
        out = []
        for l in lines:
            t = l.split()
            drop = drop_recv if t[0] == "recv" else drop_take if t[0] == "take" else ()
            out.append(" ".join(x for x in t if not x.startswith(drop)) if drop else l)
        return out

    # -- the property on the implementation's observations alone -------------------------------------
    def monitor_run(self, case, il):
        """exactly once / increasing order / nothing lost, on what reached the harness's Celestia"""
        fails = []
        fed = []
        exited = False
        for l in il[1:]:
            t = l.split()
            if "panic" in t:
                fails.append("panic: %r" % l)
                continue
            if t[0] in ("feed", "fetch"):
                kv = kvs(l)
                fed += list(range(int(kv["first"]), int(kv["first"]) + int(kv["n"])))
            exited = exited or any(e.startswith("exit:") for e in run_events(l))
        if any(a >= b for a, b in zip(fed, fed[1:])):
            return fails      # a restart handed heights over again: not a run-level scenario
        subs = run_submissions(il)
        where = " (submissions so far: %s)" % [hs for hs, _ in subs]
        seen = {}
        flat = []
        for k, (hs, _) in enumerate(subs):
            if not hs:
                fails.append("empty submission: BlobTx without a sequencer block" + where)
            for h in hs:
                if h not in fed:
                    fails.append("block submitted that was never handed over: height %d in submission %d%s" % (h, k, where))
                elif h in seen:
                    fails.append("block submitted twice: height %d in submissions %d and %d%s" % (h, seen[h], k, where))
                seen.setdefault(h, k)
                flat.append(h)
        once = [h for i, h in enumerate(flat) if h not in flat[:i]]
        for a, b in zip(once, once[1:]):
            if a > b:
                fails.append("height order violated: height %d is submitted before height %d%s" % (a, b, where))
                break
        # a handed-over block below the greatest submitted height that is in no submission can only be lost or late
        if once and not fails:
            skipped = [h for h in fed if h < max(once) and h not in seen]
            if skipped:
                fails.append("block skipped: heights %s are in no submission although %d is%s" % (skipped[:5], max(once), where))
        # at the end: everything confirmed, relayer alive and idle for 5 s -> nothing handed over may be outstanding
        last = il[-2] if il[-1].startswith("csizes") and len(il) > 2 else il[-1]
        txs = kvs(last).get("txs", "-")
        states = [] if txs == "-" else [t.split(":")[2] for t in txs.split(",")]
        quiet = last.startswith("run ms=") and int(kvs(last)["ms"]) >= 5000 and kvs(last).get("ev") == "-"
        # no transaction is waiting on Celestia, and the relayer itself has recorded its newest submission as completed
        # (state file `started` with that submission's greatest height): nothing is in flight
        f = kvs(last).get("file", "").split(":")
        settled = all(s != "pending" for s in states) and bool(subs) and subs[-1][0] and f[0] == "started" and \
            len(f) == 3 and int(f[2]) == max(subs[-1][0])
        if quiet and settled and not exited and not fails:
            missing = [h for h in fed if h not in seen]
            if missing:
                fails.append("handed-over blocks lost: heights %s are in no submission after every submission was "
                             "confirmed and the relayer has been idle for 5 s%s" % (missing[:5], where))
        return fails

    def monitor(self, case, il):
        if is_run(case):
            return self.monitor_run(case, il)
        fails = []
        f = kvs(case[0]).get("filter", "-")
        filt = set() if f == "-" else set(f.split(","))

        def included(r):
            return not filt or r in filt

        received = []     # (height, meta digest, [(rollup, digest)])
        emitted = 0       # number of received blocks already seen in submissions
        halted = False
        last_take_none = False
        for l in il[1:]:
            t = l.split()
            kv = kvs(l)
            if "panic" in t:
                fails.append("panic: %r" % l)
                continue
            if "halted" in t:
                continue
            if t[0] == "recv":
                last_take_none = False
                res = kv["res"]
                if res == "err":
                    fails.append("payload construction failed: %r" % l)
                if res in ("ok", "full", "oversized"):
                    rd = [] if kv["rd"] == "-" else [tuple(x.split(":")) for x in kv["rd"].split(",")]
                    received.append((kv["h"], kv["in"], rd))
                if res == "oversized":
                    halted = True
                    if int(kv["csize"]) <= MAX:
                        fails.append("relayer stopped on a block that fits: %r" % l)
                if res == "ok" and int(kv["csize"]) > MAX:
                    fails.append("block accepted above the maximum: %r" % l)
            elif t[0] == "take":
                if t[1] == "none":
                    last_take_none = True
                    continue
                last_take_none = False
                size, real, n = int(kv["size"]), int(kv["real"]), int(kv["nblocks"])
                if real > MAX:
                    fails.append("submission exceeds the maximum: %d compressed bytes > %d" % (real, MAX))
                if size != real:
                    fails.append("submission size misreported: reports %d compressed bytes but its blobs hold %d" % (size, real))
                if kv["bad"] != "-":
                    fails.append("conductor-side decoding failed: bad=%s" % kv["bad"])
                metas = [] if kv["meta"] == "-" else [m.split("/") for m in kv["meta"].split(",")]
                want = received[emitted:emitted + len(metas)]
                if n == 0 or len(metas) != n:
                    fails.append("metadata entries missing: submission with %d blocks decodes to %d metadata entries" % (n, len(metas)))
                if len(want) < len(metas):
                    fails.append("block submitted twice or never received: submission carries %d blocks but only %d received blocks were outstanding" % (len(metas), len(want)))
                    continue
                for m, w in zip(metas, want):
                    ids = "+".join(r for r, _ in w[2]) or "-"
                    if m[0] != w[0] or m[1] != w[1]:
                        fails.append("block order/identity: submission has height %s digest %s, expected the next received "
                                     "block height %s digest %s" % (m[0], m[1], w[0], w[1]))
                    elif m[2] != ids:
                        fails.append("metadata altered: height %s lists rollups %s, block has %s" % (m[0], m[2], ids))
                hs = [int(w[0]) for w in want]
                inc = all(int(a[0]) < int(b[0]) for a, b in zip(received, received[1:]))
                if inc and any(a >= b for a, b in zip(hs, hs[1:])):
                    fails.append("heights within a submission not increasing: %s" % hs)
                got = {} if kv["rd"] == "-" else dict((x.split(":")[0], x.split(":")[1].split("+")) for x in kv["rd"].split(","))
                exp = {}
                for w in want:
                    for r, d in w[2]:
                        if included(r):
                            exp.setdefault(r, []).append(d)
                # the conductor matches rollup data to metadata by block hash: order inside a blob is not part of
                # the property (the correspondence with the model still compares it)
                if {r: sorted(v) for r, v in got.items()} != {r: sorted(v) for r, v in exp.items()}:
                    fails.append("decoded rollup data differs from the included rollups' data of the blocks: got %s expected %s"
                                 % (sorted(got.items())[:4], sorted(exp.items())[:4]))
                if int(kv["nblobs"]) != 1 + len(exp):
                    fails.append("blob count wrong: %s, expected %d" % (kv["nblobs"], 1 + len(exp)))
                emitted += len(metas)
                if kv["readd"] == "oversized":
                    halted = True
                    if kv["csize2"] != "-" and int(kv["csize2"]) <= MAX:
                        fails.append("relayer stopped on a block that fits: pending block, csize2=%s" % kv["csize2"])
        if emitted > len(received):
            fails.append("block submitted twice or never received: %d submitted, %d received" % (emitted, len(received)))
        if last_take_none and not halted and emitted != len(received):
            fails.append("received blocks lost: %d received, %d submitted after draining" % (len(received), emitted))
        return fails

    def shrink(self, case, kind):
        if not is_run(case):
            return CaseCheck.shrink(self, case, kind)
        # every evaluation of a run-level script is a process of its own running for seconds: only the
        # release rounds are worth dropping
        from common import ddmin
        head, ops = case[0], case[1:]

        def fails(sub):
            try:
                r = self.evaluate([[head] + sub])
            except Exception:
                return False
            return any(k == kind for k, _ in r[0][3])
        try:
            return [head] + ddmin(ops, fails, max_runs=8)
        except Exception:
            return case

    def nontrivial(self, case, il):
        if is_run(case):
            return self.run_profile(il)["parked"]
        f = kvs(case[0]).get("filter", "-")
        subs = sum(1 for l in il if l.startswith("take size="))
        return any("res=full" in l or "res=oversized" in l or "readd=oversized" in l for l in il) or subs >= 2 or \
            (f != "-" and subs >= 1)

    def run_profile(self, il):
        """what a run-level trace exercised, from the observations: blocks handed over while a submission was
        unconfirmed, and whether one of them was left out of the next submission although handed over before it
        was taken (= it was refused as Full and parked)"""
        inflight = False
        windows = [[]]      # per submission in flight: the heights handed over meanwhile
        for l in il[1:]:
            t = l.split()
            for e in run_events(l):
                if e.startswith("bcast:"):
                    inflight = True
                elif e.startswith("file:started:"):
                    inflight = False
                    windows.append([])
            if t[0] == "feed" and inflight:
                kv = kvs(l)
                windows[-1] += list(range(int(kv["first"]), int(kv["first"]) + int(kv["n"])))
        subs = [hs for hs, _ in run_submissions(il)]
        parked = False
        for during in windows:
            for hs in subs:
                inside = [h for h in during if h in hs]
                if inside and any(h not in hs and h > max(inside) for h in during):
                    parked = True
        return {"during": sum(len(w) for w in windows), "parked": parked, "subs": len(subs)}

    def stats(self, cases, impl):
        c = Counter()
        sizes = []
        for case, il in zip(cases, impl):
            if is_run(case):
                pr = self.run_profile(il)
                c["run_cases"] += 1
                c["run_blocks_handed_over_while_in_flight"] += pr["during"]
                c["run_cases_with_parked_block"] += pr["parked"]
                c["run_submissions"] += pr["subs"]
                c["run_cases_replayed_on_model"] += self.run_disciplined(case, il)
                c["run_retried_blobtx"] += sum(len(idx) - 1 for _, idx in run_submissions(il))
                continue
            for l in il[1:]:
                t = l.split()
                if "halted" in t:
                    c[t[0] + "_halted"] += 1
                elif t[0] == "recv":
                    c["recv_" + kvs(l).get("res", "?")] += 1
                elif t[0] == "take":
                    if t[1] == "none":
                        c["take_none"] += 1
                    else:
                        kv = kvs(l)
                        c["take_sub"] += 1
                        c["readd_" + kv["readd"]] += 1
                        sizes.append(int(kv["real"]))
        d = dict(c)
        if sizes:
            d["max_submission_bytes"] = max(sizes)
            d["submissions_over_900k"] = sum(1 for s in sizes if s > 900_000)
        d["calibrated_overhead"] = getattr(self, "overhead", None)
        return d


CHECK = C12()
