#!/bin/bash
# usage: mkowner.sh <name> <PIDs comma separated>  -- prepare an isolated workspace for a property-owner agent
set -e
name=$1; pids=$2
d=/tmp/agents/own_$name
rm -rf $d; mkdir -p $d
git -C /repo worktree prune
git -C /repo worktree add -q $d/repo HEAD
rsync -a --exclude .git --exclude .cache --exclude 'coq/extraction/build' --exclude '*.vo' --exclude '*.vok' --exclude '*.vos' --exclude '*.glob' --exclude '*.aux' --exclude 'evidence' --exclude seeded /verif/ $d/verif/
mkdir -p $d/verif/evidence
python3 - "$d" "$pids" <<'PY'
import json,sys,re
d,pids=sys.argv[1],sys.argv[2].split(',')
props={json.loads(l)['id']:json.loads(l) for l in open('/verif/properties.jsonl')}
design=open('/verif/DESIGN.md').read()
out=[]
for p in pids:
    q=props[p]
    out.append("## Property %s: %s\n\nStatement: %s\n\nQuantifier: %s\n\nWhy tests cannot settle it: %s\n\nAnchors: %s\n\nMechanisms: %s\n" % (
        p,q['title'],q['statement'],q['quantifier']['text'],q['why_tests_cant'],", ".join(q['anchors']['files']),
        "; ".join("%s (%s)"%(m.get('name'),m.get('where')) for m in q['anchors'].get('mechanism',[]))))
open(d+'/PROPERTIES.md','w').write("\n".join(out))
PY
echo $d
