#!/usr/bin/env python3
"""rs2v.py -- a deliberately small translator from a straight-line subset of Rust to Gallina.

    python3 tools/rs2v.py --repo /repo --out coq/theories/Kernels

For every kernel listed in KERNEL_GROUPS the function `fn <name>` is located in the Rust source
AS IT IS NOW, parsed, and re-emitted as a Coq definition into <out>/<Module>.v (one file per
group; a file is only rewritten when its content changed).  The hand-written file
Kernels/KernelEq.v proves `Kernels.f = Model.f` for each of them, so the theorems about the
models are re-checked against what the code says on every run.

stdout: ONE JSON object {"ok":..., "kernels":[{"name","source","file","coq"}...], "error":...}
exit 0 when ok; exit 1 when a function is missing or leaves the supported subset.  In that case
the group's file is replaced by one that does not compile, so that a stale definition can never
be what the equations are checked against.

Semantics (see coq/theories/Base/KernelLib.v): usize/u64 = 64 bit, values are N, every function
returns `option T`, None = the Rust code panics in a debug build.

Adding a kernel = one K(...) entry in KERNEL_GROUPS (plus its keq_ lemma in KernelEq<Group>.v).
Only the Python standard library is used.

Beyond plain `fn`s over unsigned integers a group may use:
  K(name, self_fields={field: type})   a method: the fields of `self` it reads are parameters
                     `self_<field>`; with `&mut self` the fields it assigns are returned next to
                     its own result, `(result, self_<f>...)`, also on an early error return
  C(NAME)            an item-level `const NAME: uN = <literal>;`
  F(coq, within=fn, stmts=[anchors], params, ret, result, opaque)
                     a FRAGMENT of a larger function: each anchor must match exactly once inside
                     `fn <within>`; the statement it starts (up to its `;`, or to the closing `}` of
                     an `if` statement) is cut out; the statements are wrapped into a synthetic
                     function over the declared free variables (`opaque` turns accessor calls such
                     as `fees.base()` into free variables).  Anchor not found / found twice = error.
  "enums":    {Name: {"file": ...}}    fieldless enum: its variants are READ from the source and
                     emitted as an Inductive; `match` on it with `|` patterns, `_` and `if` guards
                     is translated arm by arm (first arm whose pattern and guard hold)
  "newtypes": {Name: {"repr": "u64", "max": "I64_MAX", "get": ["value"]}}   integer newtype;
                     `max`: `x.try_into()` into it is `try_into_ranged max x`; "methods": methods
                     that forward to the wrapped (signed) integer's method of the same name
  "pins":     [{"file", "fn", "text"}] source the table relies on WITHOUT translating it (one-line
                     accessors / forwarding methods): compared token by token, a change is an error
`Result<T, E>` is `result T` (KernelLib: ROk v | RErr; the error value is dropped), so a function
returning Result has type `option (result T)`: None = panic, Some RErr = it returned an error.
`?` on Result/Option, `.ok_or(..)`, `.ok_or_else(|| ..)`, `.ok_or_eyre(..)`, `.map_err(..)`,
`ensure!`, `bail!`, `Ok(..)`, `Err(..)` are supported; i128 values are Z (`/`, `%` = Z.quot, Z.rem).
"""
import argparse
import bisect
import json
import os
import re
import sys

# --------------------------------------------------------------------------------------------
# the table


def K(fn, coq=None, params=None, ret=None, fuel=66, nth=None, self_fields=None):
    """fn: Rust function name (found by `fn <name>` in the group's file)
    coq: name of the generated definition (default: fn)
    params: optional {param name: builtin type} overriding the types written in the source
            (for newtypes/aliases that stand for an integer)
    ret: optional builtin type overriding the return type
    fuel: fuel given to a `loop` (out of fuel = None)
    nth: which occurrence (1-based) when `fn <name>` occurs more than once in the file
    self_fields: for a method (`&self` / `&mut self`): {field name: builtin type}.  Every field the
            body reads becomes a parameter `self_<field>`; every field it assigns is returned
            next to the function's own result: `(result, self_<f1>, ...)` (the value at the moment
            the function returns, also on an early `?`/`return`)"""
    return {"kind": "fn", "fn": fn, "coq": coq or fn, "params": params or {}, "ret": ret, "fuel": fuel,
            "nth": nth, "self_fields": self_fields}


def C(name, coq=None):
    """`const NAME: <integer type> = <integer literal>;` at item level -> `Definition NAME : N`"""
    return {"kind": "const", "fn": name, "coq": coq or name}


def F(coq, within, stmts, params, ret, result, opaque=None, nth=None):
    """A FRAGMENT of a larger function, wrapped into a synthetic function.
    within: name of the enclosing `fn` (the anchors are searched in its body only)
    stmts:  list of anchors.  Each anchor is a regular expression (whitespace in it stands for
            any amount of whitespace) that must match EXACTLY ONCE in the enclosing function;
            the statement runs from the start of the match to the `;` that terminates it
            (brackets balanced).  The statements are taken in the order of the list and must
            occur in that order in the source.
    params: [(name, builtin type)] the fragment's free variables
    ret:    builtin return type of the synthetic function
    result: Rust text of the synthetic tail expression (e.g. "Ok(required_voting_power)")
    opaque: {Rust expression text: variable name}: a token sequence of the fragment that is to
            be read as that free variable (e.g. "fees.base()": "base")"""
    return {"kind": "frag", "fn": coq, "coq": coq, "within": within, "stmts": stmts, "fparams": params,
            "params": {}, "ret": None, "fret": ret, "result": result, "opaque": opaque or {}, "nth": nth, "fuel": 66,
            "self_fields": None}


BSC_FIELDS = {"max_size_sequencer": "usize", "max_size_cometbft": "usize",
              "current_size_sequencer": "usize", "current_size_cometbft": "usize"}

KERNEL_GROUPS = [
    {"module": "KMerkle",
     "file": "crates/astria-merkle/src/lib.rs",
     "types": {},          # extra type aliases for this file, e.g. {"Height": "u64"}
     "kernels": [
         K("leaf_index_to_tree_index"),
         K("last_set_bit"),
         K("last_zero_bit"),
         K("perfect_parent"),
         K("perfect_left_child"),
         K("perfect_right_child"),
         K("perfect_root"),
         K("complete_root"),
         K("complete_parent", fuel=66),
         K("checked_complete_parent", fuel=66),
         K("complete_left_child"),
         K("complete_right_child"),
         K("complete_parent_and_sibling"),
         K("is_branch"),
         K("is_leaf_index_in_tree"),
         K("is_tree_index_in_tree"),
         K("is_perfect"),
     ]},
    {"module": "KConductor",
     "file": "crates/astria-conductor/src/celestia/block_verifier.rs",
     "types": {},
     "kernels": [
         K("does_commit_voting_power_have_quorum"),
     ]},
    # ---- C10: conductor executor / state
    {"module": "KConductorExec",
     "file": "crates/astria-conductor/src/executor/mod.rs",
     "types": {},
     # fieldless enums: the variants are READ from the source and emitted as an Inductive
     "enums": {"CommitLevel": {"file": "crates/astria-conductor/src/config.rs"}},
     "kernels": [
         K("should_execute_firm_block", nth=2),     # 1 = the method that forwards to it
     ]},
    # ---- C06: sequencer block size accounting.  The struct's fields become parameters
    # `self_<field>`; a `&mut self` method also returns the new value of every field it assigns.
    {"module": "KProposal",
     "file": "crates/astria-sequencer/src/proposal/block_size_constraints.rs",
     "types": {},
     "kernels": [
         C("MAX_SEQUENCE_DATA_BYTES_PER_BLOCK"),
         K("sequencer_has_space", self_fields=BSC_FIELDS),
         K("cometbft_has_space", self_fields=BSC_FIELDS),
         K("sequencer_checked_add", self_fields=BSC_FIELDS),
         K("cometbft_checked_add", self_fields=BSC_FIELDS),
     ]},
    # ---- C15: fragments of validate_vote_extensions and of median
    {"module": "KOracleVote",
     "file": "crates/astria-sequencer/src/app/vote_extension.rs",
     "types": {},
     "kernels": [
         F("required_voting_power", within="validate_vote_extensions",
           stmts=["let required_voting_power ="],
           params=[("total_voting_power", "u64")], ret="Result<u64>",
           result="Ok(required_voting_power)"),
         F("voting_power_check", within="validate_vote_extensions",
           stmts=["if total_voting_power == 0", "let required_voting_power =", "ensure!( submitted_voting_power"],
           params=[("total_voting_power", "u64"), ("submitted_voting_power", "u64")], ret="Result<()>",
           result="Ok(())"),
     ]},
    {"module": "KOracleMedian",
     "file": "crates/astria-core/src/oracles/price_feed/utils.rs",
     "types": {},
     # Price(i128): `get`/`new` unwrap/wrap; checked_add / checked_div forward to i128's (their
     # one-line bodies are pinned below: a change there fails the translation)
     "newtypes": {"Price": {"repr": "i128", "get": ["get"],
                            "methods": {"checked_add": "Self", "checked_div": "repr"}}},
     "pins": [
         {"file": "crates/astria-core/src/oracles/price_feed/types.rs", "fn": "new", "nth": 1,
          "text": "fn new(value: i128) -> Self { Self(value) }"},
         {"file": "crates/astria-core/src/oracles/price_feed/types.rs", "fn": "get", "nth": 1,
          "text": "fn get(self) -> i128 { self.0 }"},
         {"file": "crates/astria-core/src/oracles/price_feed/types.rs", "fn": "checked_add",
          "text": "fn checked_add(self, rhs: Self) -> Option<Self> { self.get().checked_add(rhs.get()).map(Self) }"},
         {"file": "crates/astria-core/src/oracles/price_feed/types.rs", "fn": "checked_div",
          "text": "fn checked_div(self, rhs: i128) -> Option<Self> { self.get().checked_div(rhs).map(Self) }"},
     ],
     "kernels": [
         F("median_tail", within="median",
           stmts=["let half_high =", "let half_low =", "let sum =", "let median ="],
           params=[("higher_price", "Price"), ("lower_price", "Price")], ret="Price",
           result="median"),
     ]},
    # ---- C01: the fee formula inside `fee` (async, generic: only the two arithmetic statements
    # are taken; the three accessor calls are read as free u128 variables)
    {"module": "KFee",
     "file": "crates/astria-sequencer/src/checked_actions/utils.rs",
     "types": {},
     "pins": [
         {"file": "crates/astria-core/src/protocol/fees/v1.rs", "fn": "base",
          "text": "fn base(&self) -> u128 { self.base }"},
         {"file": "crates/astria-core/src/protocol/fees/v1.rs", "fn": "multiplier",
          "text": "fn multiplier(&self) -> u128 { self.multiplier }"},
         {"file": "crates/astria-sequencer/src/fees/fee_handler.rs", "fn": "variable_component", "decl": True,
          "text": "fn variable_component(&self) -> u128;"},
     ],
     "kernels": [
         F("total_fee", within="fee",
           stmts=["let variable_fee =", "let total_fee ="],
           params=[("base", "u128"), ("multiplier", "u128"), ("variable_component", "u128")], ret="u128",
           result="total_fee",
           opaque={"fees.base()": "base", "fees.multiplier()": "multiplier",
                   "action.variable_component()": "variable_component"}),
     ]},
    {"module": "KConductorState",
     "file": "crates/astria-conductor/src/state.rs",
     "types": {},
     # tendermint::block::Height (tendermint-0.40.4 src/block/height.rs): a u64 newtype whose
     # TryFrom<u64> fails iff the value does not fit an i64; `.value()` reads the u64
     "newtypes": {"SequencerHeight": {"repr": "u64", "max": "I64_MAX", "get": ["value"]}},
     "kernels": [
         K("map_rollup_number_to_sequencer_height"),
         K("try_map_sequencer_height_to_rollup_height"),
     ]},
]

USIZE_BITS = 64
INT_BITS = {"u8": 8, "u16": 16, "u32": 32, "u64": 64, "u128": 128, "usize": USIZE_BITS}
SINT_BITS = {"i8": 8, "i16": 16, "i32": 32, "i64": 64, "i128": 128, "isize": USIZE_BITS}
MAXNAME = {8: "U8_MAX", 16: "U16_MAX", 32: "U32_MAX", 64: "U64_MAX", 128: "U128_MAX"}

# names a Rust variable must not take in the generated text
COQ_RESERVED = set("""
as at cofix do else end exists exists2 fix for forall fun if IF in let match mod return
then using where with Type Set Prop SProp Some None true false tt N nat bool option unit
bind assert lnot shl shr next_power_of_two is_power_of_two checked_add checked_sub checked_mul
checked_div checked_rem saturating_add saturating_sub saturating_mul wrapping_add wrapping_sub
wrapping_mul abs_diff truncate is_some unwrap_or negb andb orb xorb fst snd pair
U8_MAX U16_MAX U32_MAX U64_MAX U128_MAX I64_MAX I128_MAX I128_MIN result ROk RErr ok_or unwrap_res is_ok
try_into_ranged Z i_checked_add i_checked_sub i_checked_div self
""".split())


class Unsupported(Exception):
    def __init__(self, msg, line=None):
        Exception.__init__(self, msg)
        self.msg = msg
        self.line = line


# --------------------------------------------------------------------------------------------
# tokenizer

TOK_RE = re.compile(r"""
  (?P<ws>\s+)
 |(?P<lc>//[^\n]*)
 |(?P<num>(?:0[xX][0-9a-fA-F_]+|0[bB][01_]+|0[oO][0-7_]+|[0-9][0-9_]*))(?P<suf>[ui](?:8|16|32|64|128|size))?(?![A-Za-z0-9_])
 |(?P<id>[A-Za-z_][A-Za-z0-9_]*)
 |(?P<str>"(?:[^"\\]|\\.)*")
 |(?P<chr>'(?:[^'\\\n]|\\[^\n']*)')
 |(?P<life>'[A-Za-z_][A-Za-z0-9_]*)
 |(?P<op><<=|>>=|\.\.=|\.\.\.|->|=>|==|!=|<=|>=|&&|\|\||<<|>>|::|\+=|-=|\*=|/=|%=|&=|\|=|\^=|\.\.|[-+*/%&|^!<>=.,;:(){}\[\]?\#@$~])
""", re.X | re.S)


class Tok:
    __slots__ = ("kind", "val", "line", "suf")

    def __init__(self, kind, val, line, suf=None):
        self.kind, self.val, self.line, self.suf = kind, val, line, suf

    def __repr__(self):
        return "%s:%r@%d" % (self.kind, self.val, self.line)


def tokenize_fn(src, pos, line_starts):
    """Tokens of one item starting at `pos` (the `fn` keyword) up to and including the brace
    that closes the function body."""
    toks = []
    depth = 0
    pdepth = 0
    n = len(src)
    while pos < n:
        if src.startswith("/*", pos):
            d, pos = 1, pos + 2
            while pos < n and d:
                if src.startswith("/*", pos):
                    d, pos = d + 1, pos + 2
                elif src.startswith("*/", pos):
                    d, pos = d - 1, pos + 2
                else:
                    pos += 1
            continue
        m = TOK_RE.match(src, pos)
        line = bisect.bisect_right(line_starts, pos)
        if not m:
            raise Unsupported("cannot tokenize %r" % src[pos:pos + 20], line)
        pos = m.end()
        kind = m.lastgroup
        if kind in ("ws", "lc"):
            continue
        if m.group("num") is not None:
            toks.append(Tok("num", m.group("num"), line, m.group("suf")))
            continue
        val = m.group(kind)
        toks.append(Tok(kind, val, line))
        if kind == "op":
            if val == "{":
                depth += 1
            elif val == "}":
                depth -= 1
                if depth == 0:
                    return toks
            elif val in "([":
                pdepth += 1
            elif val in ")]":
                pdepth -= 1
            elif val == ";" and depth == 0 and pdepth == 0:
                raise Unsupported("function without a body", line)
    raise Unsupported("unbalanced braces while reading the function")


# --------------------------------------------------------------------------------------------
# AST + parser


class Node:
    def __init__(self, kind, line, **kw):
        self.kind = kind
        self.line = line
        self.__dict__.update(kw)

    def __repr__(self):
        return "Node(%s)" % ", ".join("%s=%r" % kv for kv in self.__dict__.items())


BINOPS = {
    "||": 1, "&&": 2,
    "==": 3, "!=": 3, "<": 3, ">": 3, "<=": 3, ">=": 3,
    "|": 4, "^": 5, "&": 6, "<<": 7, ">>": 7, "+": 8, "-": 8, "*": 9, "/": 9, "%": 9,
}
AS_BP = 10
ASSIGN_OPS = {"=", "+=", "-=", "*=", "/=", "%=", "&=", "|=", "^=", "<<=", ">>="}
BLOCKLIKE = {"if", "loop", "match", "while", "for", "unsafe"}
PANIC_MACROS = {"panic", "unreachable", "unimplemented", "todo"}
ERR_VALUE_MACROS = {"eyre", "anyhow", "format"}      # build an error value; cannot panic, no effect


class Parser:
    def __init__(self, toks, type_aliases, enums=None, newtypes=None, self_fields=None):
        self.toks = toks
        self.i = 0
        self.aliases = type_aliases
        self.enums = enums or {}            # name -> [variants]
        self.newtypes = newtypes or {}      # name -> {"repr":..., "max":..., "get":[...]}
        self.self_fields = self_fields      # None = a receiver is not allowed
        self.recv = None

    # -- token helpers
    def peek(self, k=0):
        j = self.i + k
        return self.toks[j] if j < len(self.toks) else Tok("eof", "", self.toks[-1].line)

    def next(self):
        t = self.peek()
        self.i += 1
        return t

    def at(self, val, k=0):
        t = self.peek(k)
        return t.kind in ("op", "id") and t.val == val

    def accept(self, val):
        if self.at(val):
            return self.next()
        return None

    def expect(self, val):
        t = self.peek()
        if not self.at(val):
            raise Unsupported("expected `%s`, found `%s`" % (val, t.val), t.line)
        return self.next()

    def ident(self):
        t = self.peek()
        if t.kind != "id":
            raise Unsupported("expected an identifier, found `%s`" % t.val, t.line)
        return self.next()

    # -- types
    def parse_type(self):
        t = self.peek()
        if self.accept("("):
            items = []
            while not self.at(")"):
                items.append(self.parse_type())
                if not self.accept(","):
                    break
            self.expect(")")
            if not items:
                return ("unit",)
            if len(items) == 1:
                return items[0]
            return ("tup", tuple(items))
        if t.kind == "op":
            raise Unsupported("type starting with `%s` (references, pointers, slices, arrays)" % t.val, t.line)
        name = self.ident().val
        while self.at("::"):
            self.next()
            name = self.ident().val
        name = self.aliases.get(name, name)
        if name in INT_BITS:
            return ("int", INT_BITS[name])
        if name in SINT_BITS:
            return ("sint", SINT_BITS[name])
        if name == "bool":
            return ("bool",)
        if name in self.enums:
            return ("enum", name)
        if name in self.newtypes:
            return ("nt", name)
        if name == "Result":
            # Result<T, E> / eyre::Result<T>: the error value is not modelled
            self.expect("<")
            inner = self.parse_type()
            if self.accept(","):
                depth = 0
                while True:
                    q = self.peek()
                    if q.kind == "eof":
                        raise Unsupported("unterminated Result<..>", t.line)
                    if q.kind == "op" and q.val in ("<", "(", "["):
                        depth += 1
                    elif q.kind == "op" and q.val in (">", ")", "]"):
                        if depth == 0:
                            break
                        depth -= 1
                    self.next()
            self.expect(">")
            return ("res", inner)
        if name == "Option":
            self.expect("<")
            inner = self.parse_type()
            if self.at(">>"):            # Option<Option<T>>
                self.peek().val = ">"
            else:
                self.expect(">")
            return ("opt", inner)
        raise Unsupported("type `%s` (give it an integer meaning in the table: types/params)" % name, t.line)

    # -- function item
    def parse_fn(self):
        t = self.expect("fn")
        name = self.ident().val
        if self.at("<"):
            raise Unsupported("generic function", t.line)
        self.expect("(")
        params = []
        while not self.at(")"):
            if not params and self.recv is None and (self.at("&") or self.at("self") or
                                                     (self.at("mut") and self.at("self", 1))):
                if self.self_fields is None:
                    raise Unsupported("method receiver `self` (give the kernel self_fields= in the table)",
                                      self.peek().line)
                self.recv = "val"
                if self.accept("&"):
                    self.recv = "ref"
                    if self.peek().kind == "life":
                        self.next()
                if self.accept("mut"):
                    self.recv = "mut" if self.recv == "ref" else "val"
                self.expect("self")
                if not self.accept(","):
                    break
                continue
            if self.at("&") or self.at("self"):
                raise Unsupported("method receiver `self`", self.peek().line)
            self.accept("mut")
            p = self.ident()
            self.expect(":")
            mark = self.i
            try:
                ty = self.parse_type()
            except Unsupported as ex:
                # may be overridden by the table; skip the type's tokens up to `,` or `)` at depth 0
                self.i = mark
                depth = 0
                while True:
                    q = self.peek()
                    if q.kind == "eof":
                        raise
                    if q.kind == "op" and q.val in "(<[":
                        depth += 1
                    elif q.kind == "op" and q.val in ")>]":
                        if depth == 0:
                            break
                        depth -= 1
                    elif q.kind == "op" and q.val == "," and depth == 0:
                        break
                    self.next()
                ty = ("unsupported", ex.msg)
            params.append((p.val, ty, p.line))
            if not self.accept(","):
                break
        self.expect(")")
        ret = ("unit",)
        if self.accept("->"):
            mark = self.i
            try:
                ret = self.parse_type()
            except Unsupported as ex:
                self.i = mark
                while not self.at("{") and not self.at("where"):
                    self.next()
                ret = ("unsupported", ex.msg)
        if self.at("where"):
            raise Unsupported("where clause", self.peek().line)
        body = self.parse_block()
        return Node("fn", t.line, name=name, params=params, ret=ret, body=body, recv=self.recv)

    # -- blocks and statements
    def parse_block(self):
        t = self.expect("{")
        stmts = []
        tail = None
        while not self.at("}"):
            if self.accept(";"):
                continue
            p = self.peek()
            if p.kind == "op" and p.val == "#":
                raise Unsupported("attribute inside a function body", p.line)
            if self.at("let"):
                stmts.append(self.parse_let())
                continue
            if p.kind == "id" and p.val in ("fn", "use", "const", "static", "struct", "enum", "impl", "type", "mod"):
                raise Unsupported("item `%s` inside a function body" % p.val, p.line)
            if p.kind == "id" and p.val in BLOCKLIKE or self.at("{"):
                e = self.parse_primary()     # a block-like expression ends the statement
                if self.at("}") and not (e.kind == "if" and e.el is None):
                    tail = e
                    break
                semi = bool(self.accept(";"))
                stmts.append(Node("expr", e.line, e=e, semi=semi))
                continue
            e = self.parse_expr(0)
            q = self.peek()
            if q.kind == "op" and q.val in ASSIGN_OPS:
                self.next()
                if e.kind != "var":
                    raise Unsupported("assignment to something that is not a plain variable", q.line)
                rhs = self.parse_expr(0)
                self.expect(";")
                if q.val != "=":
                    rhs = Node("bin", q.line, op=q.val[:-1], a=Node("var", q.line, name=e.name), b=rhs)
                stmts.append(Node("assign", q.line, name=e.name, e=rhs))
                continue
            if self.accept(";"):
                stmts.append(Node("expr", e.line, e=e, semi=True))
                continue
            if self.at("}"):
                tail = e
                break
            raise Unsupported("expected `;` or `}` after expression, found `%s`" % q.val, q.line)
        self.expect("}")
        return Node("block", t.line, stmts=stmts, tail=tail)

    def parse_pattern(self):
        t = self.peek()
        if self.accept("("):
            items = []
            while not self.at(")"):
                items.append(self.parse_pattern())
                if not self.accept(","):
                    break
            self.expect(")")
            return ("tup", items)
        self.accept("mut")
        if self.at("ref") or self.at("&"):
            raise Unsupported("reference pattern", t.line)
        name = self.ident().val
        if self.at("(") or self.at("{") or self.at("::") or self.at("@"):
            raise Unsupported("refutable / structured pattern", t.line)
        return ("id", name)

    def parse_let(self):
        t = self.expect("let")
        pat = self.parse_pattern()
        ty = None
        if self.accept(":"):
            ty = self.parse_type()
        if not self.accept("="):
            raise Unsupported("`let` without an initialiser", t.line)
        e = self.parse_expr(0)
        if self.at("else"):
            raise Unsupported("let-else", t.line)
        self.expect(";")
        return Node("let", t.line, pat=pat, ty=ty, e=e)

    # -- expressions
    def parse_expr(self, min_bp):
        lhs = self.parse_unary()
        while True:
            t = self.peek()
            if t.kind == "id" and t.val == "as":
                if AS_BP < min_bp:
                    break
                self.next()
                ty = self.parse_type()
                lhs = Node("cast", t.line, e=lhs, ty=ty)
                continue
            if t.kind != "op" or t.val not in BINOPS:
                break
            bp = BINOPS[t.val]
            if bp < min_bp:
                break
            self.next()
            rhs = self.parse_expr(bp + 1)
            if bp == 3 and self.peek().kind == "op" and BINOPS.get(self.peek().val) == 3:
                raise Unsupported("chained comparison", t.line)
            lhs = Node("bin", t.line, op=t.val, a=lhs, b=rhs)
        return lhs

    def parse_unary(self):
        t = self.peek()
        if t.kind == "op" and t.val in ("!", "-", "&", "*", "&&"):
            self.next()
            if t.val != "!":
                raise Unsupported({"-": "unary minus", "&": "reference `&`", "&&": "reference `&`",
                                   "*": "dereference `*`"}[t.val], t.line)
            return Node("not", t.line, e=self.parse_unary())
        return self.parse_postfix(self.parse_primary())

    def parse_args(self):
        self.expect("(")
        args = []
        while not self.at(")"):
            args.append(self.parse_expr(0))
            if not self.accept(","):
                break
        self.expect(")")
        return args

    def parse_postfix(self, e):
        while True:
            t = self.peek()
            if self.at("?"):
                self.next()
                e = Node("try", t.line, e=e)
            elif self.at("."):
                self.next()
                m = self.peek()
                if m.kind == "num":
                    self.next()
                    e = Node("field", t.line, e=e, idx=int(m.val))
                    continue
                name = self.ident().val
                if self.at("::"):
                    raise Unsupported("turbofish on method `%s`" % name, t.line)
                if not self.at("("):
                    if e.kind == "var" and e.name == "self" and self.self_fields is not None \
                            and name in self.self_fields:
                        e = Node("var", t.line, name="self_" + name)
                        continue
                    raise Unsupported("field access `.%s`" % name, t.line)
                args = self.parse_args()
                e = Node("method", t.line, recv=e, name=name, args=args)
            elif self.at("("):
                if e.kind != "path":
                    raise Unsupported("call of something that is not a plain function path", t.line)
                args = self.parse_args()
                e = Node("call", t.line, path=e.segs, args=args)
            elif self.at("["):
                raise Unsupported("indexing `[...]`", t.line)
            else:
                return e

    def parse_match_pat(self):
        t = self.peek()
        if t.kind != "id":
            raise Unsupported("match pattern starting with `%s` (only enum variants and `_`)" % t.val, t.line)
        segs = [self.ident().val]
        while self.accept("::"):
            segs.append(self.ident().val)
        if self.at("(") or self.at("{") or self.at("@") or self.at("..") or self.at("..="):
            raise Unsupported("structured / range match pattern", t.line)
        if segs == ["_"]:
            return ("wild",)
        if len(segs) < 2:
            raise Unsupported("match pattern `%s` (a binding or a constant; only `Enum::Variant` and `_`)"
                              % segs[0], t.line)
        return ("variant", segs[-2], segs[-1])

    def parse_match(self):
        t = self.expect("match")
        scrut = self.parse_expr(0)
        self.expect("{")
        arms = []
        while not self.at("}"):
            self.accept("|")
            pats = [self.parse_match_pat()]
            while self.accept("|"):
                pats.append(self.parse_match_pat())
            guard = None
            if self.accept("if"):
                if self.at("let"):
                    raise Unsupported("`if let` guard", t.line)
                guard = self.parse_expr(0)
            self.expect("=>")
            # an arm whose body is a block ends with that block (no operator may continue it)
            body = self.parse_block() if self.at("{") else self.parse_expr(0)
            arms.append((pats, guard, body))
            if not self.accept(","):
                if body.kind == "block" and not self.at("}"):
                    continue
                break
        self.expect("}")
        return Node("match", t.line, scrut=scrut, arms=arms)

    def parse_closure(self):
        t = self.peek()
        params = []
        if self.accept("||"):
            pass
        else:
            self.expect("|")
            while not self.at("|"):
                self.accept("mut")
                if self.at("&") or self.at("("):
                    raise Unsupported("closure with a structured argument pattern", t.line)
                p = self.ident().val
                ty = None
                if self.accept(":"):
                    ty = self.parse_type()
                params.append((p, ty))
                if not self.accept(","):
                    break
            self.expect("|")
        if self.at("->"):
            raise Unsupported("closure with a return type annotation", t.line)
        body = self.parse_expr(0)
        return Node("closure", t.line, params=params, body=body)

    def parse_primary(self):
        t = self.peek()
        if t.kind == "num":
            self.next()
            txt = t.val.replace("_", "")
            low = txt.lower()
            if low.startswith("0x"):
                v = int(low[2:], 16)
            elif low.startswith("0b"):
                v = int(low[2:], 2)
            elif low.startswith("0o"):
                v = int(low[2:], 8)
            else:
                v = int(low)
            ty = None
            if t.suf:
                if t.suf[0] == "i":
                    raise Unsupported("signed integer literal", t.line)
                ty = ("int", INT_BITS[t.suf])
            return Node("lit", t.line, v=v, ty=ty)
        if t.kind == "str":
            self.next()
            return Node("str", t.line, s=t.val)
        if t.kind in ("chr", "life"):
            raise Unsupported("char literal / lifetime", t.line)
        if t.kind == "op":
            if t.val == "(":
                self.next()
                items = []
                trailing = False
                while not self.at(")"):
                    items.append(self.parse_expr(0))
                    trailing = bool(self.accept(","))
                    if not trailing:
                        break
                self.expect(")")
                if not items:
                    return Node("unit", t.line)
                if len(items) == 1 and not trailing:
                    return items[0]
                return Node("tuple", t.line, items=items)
            if t.val == "{":
                return self.parse_block()
            if t.val in ("|", "||"):
                return self.parse_closure()
            raise Unsupported("unexpected `%s`" % t.val, t.line)
        if t.kind != "id":
            raise Unsupported("unexpected end of input", t.line)
        v = t.val
        if v in ("true", "false"):
            self.next()
            return Node("boollit", t.line, v=(v == "true"))
        if v == "if":
            self.next()
            if self.at("let"):
                raise Unsupported("`if let`", t.line)
            c = self.parse_expr(0)
            th = self.parse_block()
            el = None
            if self.accept("else"):
                if self.at("if"):
                    inner = self.parse_primary()
                    el = Node("block", inner.line, stmts=[], tail=inner)
                else:
                    el = self.parse_block()
            return Node("if", t.line, c=c, th=th, el=el)
        if v == "loop":
            self.next()
            return Node("loop", t.line, body=self.parse_block())
        if v == "match":
            return self.parse_match()
        if v in ("while", "for", "unsafe", "async", "move"):
            raise Unsupported("`%s` expression" % v, t.line)
        if v in ("return", "break"):
            self.next()
            if t.kind == "id" and self.peek().kind == "life":
                raise Unsupported("labelled break", t.line)
            e = None
            if not (self.at(";") or self.at("}") or self.at(",") or self.at(")")):
                e = self.parse_expr(0)
            return Node(v, t.line, e=e)
        if v == "continue":
            self.next()
            if self.peek().kind == "life":
                raise Unsupported("labelled continue", t.line)
            return Node("continue", t.line)
        # path, macro call
        self.next()
        segs = [v]
        while self.at("::"):
            self.next()
            if self.at("<"):
                raise Unsupported("turbofish / qualified path", t.line)
            segs.append(self.ident().val)
        if self.at("!") and not self.at("!=") and self.peek(1).kind == "op" and self.peek(1).val in "([{":
            self.next()
            close = {"(": ")", "[": "]", "{": "}"}[self.next().val]
            args = []
            while not self.at(close):
                args.append(self.parse_expr(0))
                if not self.accept(","):
                    break
            self.expect(close)
            return Node("macro", t.line, name=segs[-1], args=args)
        if len(segs) == 1:
            if self.at("(") or v == "None":
                return Node("path", t.line, segs=segs)
            return Node("var", t.line, name=v)
        return Node("path", t.line, segs=segs)


def names_used(node, acc=None):
    """all identifiers that occur as variables (read or assigned) under `node`"""
    if acc is None:
        acc = set()
    if isinstance(node, Node):
        if node.kind == "var":
            acc.add(node.name)
        elif node.kind == "assign":
            acc.add(node.name)
        for v in node.__dict__.values():
            names_used(v, acc)
    elif isinstance(node, (list, tuple)):
        for v in node:
            names_used(v, acc)
    return acc


def all_idents(node, acc=None):
    """every identifier-like string in the AST (to keep fresh names fresh)"""
    if acc is None:
        acc = set()
    if isinstance(node, Node):
        for v in node.__dict__.values():
            all_idents(v, acc)
    elif isinstance(node, (list, tuple)):
        for v in node:
            all_idents(v, acc)
    elif isinstance(node, str):
        acc.add(node)
    return acc


# --------------------------------------------------------------------------------------------
# types

T_BOOL = ("bool",)
T_UNIT = ("unit",)
T_LIT = ("lit",)       # integer literal of not yet known width
T_NEVER = ("never",)
T_UNK = ("unk",)


def is_int(t):
    return t[0] in ("int", "lit")


def unify(a, b, line, what):
    if a == T_NEVER or a == T_UNK:
        return b
    if b == T_NEVER or b == T_UNK:
        return a
    if a == T_LIT and (is_int(b) or b[0] == "sint"):
        return b
    if b == T_LIT and (is_int(a) or a[0] == "sint"):
        return a
    if a[0] == "opt" and b[0] == "opt":
        return ("opt", unify(a[1], b[1], line, what))
    if a[0] == "res" and b[0] == "res":
        return ("res", unify(a[1], b[1], line, what))
    if a[0] == "tup" and b[0] == "tup" and len(a[1]) == len(b[1]):
        return ("tup", tuple(unify(x, y, line, what) for x, y in zip(a[1], b[1])))
    if a == b:
        return a
    raise Unsupported("type mismatch in %s: %s vs %s" % (what, show_ty(a), show_ty(b)), line)


def show_ty(t):
    k = t[0]
    if k == "int":
        return "u%d" % t[1]
    if k == "opt":
        return "Option<%s>" % show_ty(t[1])
    if k == "res":
        return "Result<%s, _>" % show_ty(t[1])
    if k == "sint":
        return "i%d" % t[1]
    if k in ("enum", "nt"):
        return t[1]
    if k == "tup":
        return "(%s)" % ", ".join(show_ty(x) for x in t[1])
    return {"bool": "bool", "unit": "()", "lit": "{integer}", "never": "!", "unk": "_"}.get(k, str(t))


NT_COQ = {}      # newtype name -> "N" / "Z" (set per group)


def coq_ty(t, line=None):
    k = t[0]
    if k in ("int", "lit"):
        return "N"
    if k == "bool":
        return "bool"
    if k == "unit":
        return "unit"
    if k == "opt":
        return "option %s" % P(coq_ty(t[1], line))
    if k == "res":
        return "result %s" % P(coq_ty(t[1], line))
    if k == "nt":
        return NT_COQ[t[1]]
    if k == "sint":
        return "Z"
    if k == "enum":
        return t[1]
    if k == "tup":
        return "(%s)" % " * ".join(P(coq_ty(x, line)) for x in t[1])
    raise Unsupported("cannot name the type %s in Coq" % show_ty(t), line)


ATOM_RE = re.compile(r"^[A-Za-z0-9_.']+$")


def P(s):
    """parenthesise a compound term"""
    if ATOM_RE.match(s):
        return s
    if s.startswith("(") and s.endswith(")"):
        d = 0
        for i, c in enumerate(s):
            d += (c == "(") - (c == ")")
            if d == 0 and i < len(s) - 1:
                break
        else:
            return s
    return "(" + s + ")"


# --------------------------------------------------------------------------------------------
# continuation-passing translation into a small monadic IR
#
# IR:  ("ret", t)                      Some t
#      ("comp", t)                     t : option _
#      ("bind", pat, ir, rest)         do pat <- ir; rest
#      ("let", pat, t, rest)           let pat := t in rest
#      ("if", c, a, b)
#      ("matchopt", o, x, some, none)  match o with Some x => some | None => none end
#      ("fail", why)                   None (explicit panic)


class Kont:
    """what happens to the value of an expression: 'ret' (it is the function's result),
    'bind' (name it `pat`, then `rest()`), 'anon' (`f(term)` continues)"""

    def __init__(self, kind, pat=None, rest=None, f=None):
        self.kind, self.pat, self.rest, self.f = kind, pat, rest, f


RET = Kont("ret")


class FnTranslator:
    def __init__(self, group, entry, fnode, kernels):
        self.group = group
        self.entry = entry
        self.fn = fnode
        self.kernels = kernels          # rust name -> dict(coq, params, ret) for callable kernels
        self.idents = all_idents(fnode) | set(k["coq"] for k in kernels.values())
        self.fresh_n = 0
        self.nontail = 0                # >0 while translating something whose value is used later
        self.in_closure = 0
        self.loop = None                # (coq name of the loop function, [carried names], fuel name)
        self.aux = []                   # generated Fixpoints (text)
        self.ret_ty = None
        self.calls = set()

    def err(self, msg, line):
        return Unsupported(msg, line)

    def fresh(self, base="t"):
        while True:
            self.fresh_n += 1
            n = "%s%d" % (base, self.fresh_n)
            if n not in self.idents and n not in COQ_RESERVED:
                self.idents.add(n)
                return n

    def var(self, name):
        """Coq spelling of a Rust variable"""
        if name in COQ_RESERVED or any(name == k["coq"] for k in self.kernels.values()) \
                or name.endswith("_loop"):
            return name + "_v"
        return name

    # ---- delivery of values to continuations
    def deliver_pure(self, term, k):
        if k.kind == "ret":
            return ("ret", term)
        if k.kind == "bind":
            if k.pat == term or k.pat == "_":
                return k.rest()
            return ("let", k.pat, term, k.rest())
        return k.f(term)

    def deliver_ir(self, ir, k):
        if ir[0] == "ret":
            return self.deliver_pure(ir[1], k)
        if k.kind == "ret":
            return ir
        if k.kind == "bind":
            return ("bind", k.pat, ir, k.rest())
        n = self.fresh()
        return ("bind", n, ir, k.f(n))

    def sub_ir(self, k, thunk):
        """IR of a sub-computation translated with RET whose result is then handed to k; when
        k is not RET the sub-computation must not leave the function (`?`, return, break)"""
        if k.kind == "ret":
            return thunk()
        self.nontail += 1
        try:
            return thunk()
        finally:
            self.nontail -= 1

    @staticmethod
    def smart_if(c, a, b):
        if a[0] == "ret" and b[0] == "ret":
            return ("ret", "if %s then %s else %s" % (c, a[1], b[1]))
        return ("if", c, a, b)

    @staticmethod
    def smart_matchopt(o, x, s, n):
        if s[0] == "ret" and n[0] == "ret":
            return ("ret", "match %s with Some %s => %s | None => %s end" % (o, x, s[1], n[1]))
        return ("matchopt", o, x, s, n)

    @staticmethod
    def smart_matchres(o, x, s, n):
        if s[0] == "ret" and n[0] == "ret":
            return ("ret", "match %s with ROk %s => %s | RErr => %s end" % (o, x, s[1], n[1]))
        return ("matchres", o, x, s, n)

    @staticmethod
    def smart_matchenum(x, arms):
        if all(a[0] == "ret" for _, a in arms):
            return ("ret", "match %s with %s end" % (x, " | ".join("%s => %s" % (c, a[1]) for c, a in arms)))
        return ("matchenum", x, arms)

    def is_error_value(self, e):
        """an expression that only builds an error value (never panics, no effect): dropped"""
        if e.kind == "str":
            return True
        if e.kind == "macro" and e.name in ERR_VALUE_MACROS:
            return True
        if e.kind == "closure":
            return self.is_error_value(e.body)
        if e.kind == "block" and not e.stmts and e.tail is not None:
            return self.is_error_value(e.tail)
        return False

    # ---- types of expressions
    def typeof(self, e, env):
        k = e.kind
        ln = e.line
        if k == "var":
            if e.name not in env:
                raise self.err("unknown variable or constant `%s`" % e.name, ln)
            return env[e.name]
        if k == "lit":
            return e.ty or T_LIT
        if k == "boollit":
            return T_BOOL
        if k == "unit":
            return T_UNIT
        if k == "str":
            return ("str",)
        if k == "tuple":
            return ("tup", tuple(self.typeof(x, env) for x in e.items))
        if k == "field":
            t = self.typeof(e.e, env)
            if t[0] != "tup" or e.idx >= len(t[1]):
                raise self.err("tuple field .%d of a %s" % (e.idx, show_ty(t)), ln)
            return t[1][e.idx]
        if k == "not":
            t = self.typeof(e.e, env)
            if t != T_BOOL and not is_int(t):
                raise self.err("`!` on %s" % show_ty(t), ln)
            return t
        if k == "cast":
            return e.ty
        if k == "bin":
            op = e.op
            if op in ("&&", "||"):
                return T_BOOL
            if op in ("==", "!=", "<", ">", "<=", ">="):
                return T_BOOL
            a = self.typeof(e.a, env)
            if op in ("<<", ">>"):
                return a
            b = self.typeof(e.b, env)
            return unify(a, b, ln, "`%s`" % op)
        if k == "path":
            if len(e.segs) == 2 and e.segs[0] in INT_BITS and e.segs[1] in ("MAX", "MIN", "BITS"):
                return ("int", 32) if e.segs[1] == "BITS" else ("int", INT_BITS[e.segs[0]])
            if e.segs == ["None"]:
                return ("opt", T_UNK)
            raise self.err("path `%s`" % "::".join(e.segs), ln)
        if k == "call":
            p = e.path
            if p == ["Some"] and len(e.args) == 1:
                return ("opt", self.typeof(e.args[0], env))
            if p == ["Ok"] and len(e.args) == 1:
                return ("res", self.typeof(e.args[0], env))
            if p == ["Err"] and len(e.args) == 1:
                return ("res", T_UNK)
            if len(p) == 2 and p[0] in self.group.get("newtypes", {}) and p[1] == "new" and len(e.args) == 1:
                return ("nt", p[0])
            if len(p) == 2 and p[0] in INT_BITS and p[1] == "from":
                return ("int", INT_BITS[p[0]])
            if len(p) == 1 and p[0] in self.kernels:
                return self.kernels[p[0]]["ret"]
            raise self.err("call of `%s`, which is not a translated kernel (add it to the table)"
                           % "::".join(p), ln)
        if k == "method":
            rt = self.typeof(e.recv, env)
            return self.method_type(e, rt, env)
        if k == "try":
            t = self.typeof(e.e, env)
            if t[0] not in ("opt", "res"):
                raise self.err("`?` on %s (only Option and Result are supported)" % show_ty(t), ln)
            return t[1]
        if k == "match":
            t = T_NEVER
            for (_, g, b) in e.arms:
                t = unify(t, self.typeof(b, env), ln, "match arms")
            return t
        if k == "if":
            a = self.block_type(e.th, env)
            if e.el is None:
                return T_UNIT
            return unify(a, self.block_type(e.el, env), ln, "if/else branches")
        if k == "block":
            return self.block_type(e, env)
        if k == "loop":
            return self.ret_ty
        if k in ("return", "break", "continue"):
            return T_NEVER
        if k == "macro":
            return T_NEVER if e.name in PANIC_MACROS or e.name == "bail" else T_UNIT
        raise self.err("expression `%s`" % k, ln)

    def block_type(self, b, env):
        env = dict(env)
        for s in b.stmts:
            if s.kind == "let":
                t = s.ty or self.typeof(s.e, env)
                self.bind_pattern_types(s.pat, t, env, s.line)
            elif s.kind == "expr" and s.e.kind in ("return", "break", "continue"):
                return T_NEVER
            elif s.kind == "expr" and s.e.kind == "macro" and (s.e.name in PANIC_MACROS or s.e.name == "bail"):
                return T_NEVER
        if b.tail is None:
            return T_UNIT
        return self.typeof(b.tail, env)

    def bind_pattern_types(self, pat, t, env, line):
        if pat[0] == "id":
            if pat[1] != "_":
                env[pat[1]] = t
            return
        if t[0] != "tup" or len(t[1]) != len(pat[1]):
            raise self.err("tuple pattern against %s" % show_ty(t), line)
        for p, x in zip(pat[1], t[1]):
            self.bind_pattern_types(p, x, env, line)

    INT_METHODS_OPT = {"checked_add", "checked_sub", "checked_mul", "checked_div", "checked_rem"}
    INT_METHODS_INT = {"saturating_add", "saturating_sub", "saturating_mul", "saturating_div",
                       "wrapping_add", "wrapping_sub", "wrapping_mul", "next_power_of_two",
                       "min", "max", "abs_diff"}

    def method_type(self, e, rt, env):
        m = e.name
        ln = e.line
        if is_int(rt):
            if rt == T_LIT and e.args:
                rt = unify(rt, self.typeof(e.args[0], env), ln, "." + m)
            if m in self.INT_METHODS_OPT:
                return ("opt", rt)
            if m in self.INT_METHODS_INT:
                return rt
            if m == "is_power_of_two":
                return T_BOOL
            if m == "try_into":
                return ("res", T_UNK)
        if rt[0] == "sint" and m in ("checked_add", "checked_sub", "checked_div"):
            return ("opt", rt)
        if rt[0] == "nt":
            nt = self.group["newtypes"][rt[1]]
            if m in nt.get("get", []):
                return builtin_type(nt["repr"], ln)
            if m in nt.get("methods", {}):
                # a method that forwards to the same method of the wrapped integer (its source is
                # pinned in the table): Option<Self>
                return ("opt", rt)
        if rt[0] == "opt":
            if m in ("unwrap", "expect"):
                return rt[1]
            if m in ("is_some", "is_none", "is_some_and"):
                return T_BOOL
            if m == "unwrap_or":
                return unify(rt[1], self.typeof(e.args[0], env), ln, ".unwrap_or") if e.args else rt[1]
            if m in ("ok_or", "ok_or_else", "ok_or_eyre"):
                return ("res", rt[1])
        if rt[0] == "res":
            if m in ("unwrap", "expect"):
                return rt[1]
            if m in ("is_ok", "is_err"):
                return T_BOOL
            if m in ("map_err", "wrap_err", "wrap_err_with", "context"):
                return rt
        raise self.err("method `.%s()` on %s" % (m, show_ty(rt)), ln)

    def width(self, t, line, what):
        if t[0] != "int":
            raise self.err("cannot infer the integer width of %s (add a type suffix or annotation)" % what, line)
        return t[1]

    # ---- expressions
    def tr_list(self, es, env, k_all, acc=None, i=0):
        """evaluate es left to right, then k_all([terms])"""
        acc = acc or []
        if i == len(es):
            return k_all(acc)
        return self.tr(es[i], env, Kont("anon", f=lambda t: self.tr_list(es, env, k_all, acc + [t], i + 1)))

    def tr(self, e, env, k):
        kind = e.kind
        ln = e.line
        if kind == "var":
            self.typeof(e, env)
            return self.deliver_pure(self.var(e.name), k)
        if kind == "lit":
            if e.ty and e.v >= 2 ** e.ty[1]:
                raise self.err("literal out of range", ln)
            return self.deliver_pure(str(e.v), k)
        if kind == "boollit":
            return self.deliver_pure("true" if e.v else "false", k)
        if kind == "unit":
            return self.deliver_pure("tt", k)
        if kind == "tuple":
            return self.tr_list(e.items, env, lambda ts: self.deliver_pure("(" + ", ".join(ts) + ")", k))
        if kind == "field":
            t = self.typeof(e.e, env)
            if t[0] != "tup" or len(t[1]) != 2:
                raise self.err("tuple field on something that is not a pair", ln)
            return self.tr(e.e, env, Kont("anon", f=lambda x: self.deliver_pure(
                "%s %s" % ("fst" if e.idx == 0 else "snd", P(x)), k)))
        if kind == "path":
            t = self.typeof(e, env)
            if e.segs == ["None"]:
                return self.deliver_pure("None", k)
            if e.segs[1] == "MAX":
                return self.deliver_pure(MAXNAME[t[1]], k)
            if e.segs[1] == "MIN":
                return self.deliver_pure("0", k)
            return self.deliver_pure(str(INT_BITS[e.segs[0]]), k)
        if kind == "not":
            t = self.typeof(e.e, env)
            if t == T_BOOL:
                return self.tr(e.e, env, Kont("anon", f=lambda x: self.deliver_pure("negb %s" % P(x), k)))
            w = self.width(t, ln, "the operand of `!`")
            return self.tr(e.e, env, Kont("anon", f=lambda x: self.deliver_pure(
                "lnot %s %s" % (MAXNAME[w], P(x)), k)))
        if kind == "cast":
            src = self.typeof(e.e, env)
            if e.ty[0] != "int" or not is_int(src):
                raise self.err("cast %s as %s" % (show_ty(src), show_ty(e.ty)), ln)
            if src == T_LIT or src[1] <= e.ty[1]:
                return self.tr(e.e, env, k)
            return self.tr(e.e, env, Kont("anon", f=lambda x: self.deliver_pure(
                "truncate %d %s" % (e.ty[1], P(x)), k)))
        if kind == "bin":
            return self.tr_bin(e, env, k)
        if kind == "call":
            return self.tr_call(e, env, k)
        if kind == "method":
            return self.tr_method(e, env, k)
        if kind == "try":
            t = self.typeof(e.e, env)
            if t[0] not in ("opt", "res"):
                raise self.err("`?` on %s (only Option and Result are supported)" % show_ty(t), ln)
            if self.ret_ty[0] != t[0]:
                raise self.err("`?` on %s in a function that returns %s" % (show_ty(t), show_ty(self.ret_ty)), ln)
            self.no_exit_here("`?`", ln)

            def on_opt(o):
                x = self.fresh()
                if t[0] == "res":
                    return self.smart_matchres(o, x, self.deliver_pure(x, k), ("ret", "RErr"))
                return self.smart_matchopt(o, x, self.deliver_pure(x, k), ("ret", "None"))
            return self.tr(e.e, env, Kont("anon", f=on_opt))
        if kind == "match":
            return self.tr_match(e, env, k)
        if kind == "if":
            if e.el is None:
                raise self.err("`if` without `else` whose block does not end in break/return", ln)

            def on_c(c):
                ir = self.sub_ir(k, lambda: self.smart_if(
                    c, self.tr_block(e.th, env, RET), self.tr_block(e.el, env, RET)))
                return self.deliver_ir(ir, k)
            self.expect_type(e.c, env, T_BOOL, "the condition of `if`")
            return self.tr(e.c, env, Kont("anon", f=on_c))
        if kind == "block":
            ir = self.sub_ir(k, lambda: self.tr_block(e, env, RET))
            return self.deliver_ir(ir, k)
        if kind == "loop":
            return self.tr_loop(e, env, k)
        if kind == "return":
            self.no_exit_here("`return`", ln)
            if e.e is None:
                return ("ret", "tt")
            return self.tr(e.e, env, RET)
        if kind == "break":
            if self.loop is None:
                raise self.err("`break` outside of a loop", ln)
            self.no_exit_here("`break`", ln)
            if e.e is None:
                return ("ret", "tt")
            return self.tr(e.e, env, RET)
        if kind == "continue":
            if self.loop is None:
                raise self.err("`continue` outside of a loop", ln)
            self.no_exit_here("`continue`", ln)
            return self.loop_again()
        if kind == "macro":
            return self.tr_macro(e, env, k)
        if kind == "closure":
            raise self.err("closure outside of `.is_some_and(..)`", ln)
        if kind == "str":
            raise self.err("string literal as a value", ln)
        raise self.err("expression `%s`" % kind, ln)

    def no_exit_here(self, what, line):
        if self.nontail:
            raise self.err("%s inside an expression whose value is used afterwards "
                           "(only supported where the rest of the function does not depend on a join)" % what, line)
        if self.in_closure:
            raise self.err("%s inside a closure" % what, line)

    def expect_type(self, e, env, want, what):
        t = self.typeof(e, env)
        unify(t, want, e.line, what)

    def sint_bounds(self, t, ln):
        if t[1] != 128:
            raise self.err("signed %d-bit arithmetic (only i128 has its bounds in KernelLib)" % t[1], ln)
        return "I128_MIN", "I128_MAX"

    def tr_s(self, e, env, k):
        """an operand of signed arithmetic: literals are written in Z"""
        if e.kind == "lit":
            return self.deliver_pure("%d%%Z" % e.v, k)
        return self.tr(e, env, k)

    def tr_bin_sint(self, e, env, k, t):
        op, ln = e.op, e.line
        mn, mx = self.sint_bounds(t, ln)
        two = lambda f: self.tr_s(e.a, env, Kont("anon", f=lambda a: self.tr_s(e.b, env, Kont(
            "anon", f=lambda b: f(P(a), P(b))))))
        if op in ("==", "!=", "<", ">", "<=", ">="):
            fmt = {"==": "(%s =? %s)%%Z", "!=": "negb (%s =? %s)%%Z", "<": "(%s <? %s)%%Z", "<=": "(%s <=? %s)%%Z",
                   ">": "(%s <? %s)%%Z", ">=": "(%s <=? %s)%%Z"}[op]
            if op in (">", ">="):
                return two(lambda a, b: self.deliver_pure(fmt % (b, a), k))
            return two(lambda a, b: self.deliver_pure(fmt % (a, b), k))
        if op in ("/", "%"):
            # Rust's / and % on signed integers truncate towards zero: Z.quot / Z.rem
            if e.b.kind == "lit" and e.b.v != 0:
                f = "Z.quot %s %s" if op == "/" else "Z.rem %s %s"
                return two(lambda a, b: self.deliver_pure(f % (a, b), k))
            f = "i_checked_div %s" % mn + " %s %s" if op == "/" else "i_checked_rem %s" % mn + " %s %s"
            return two(lambda a, b: self.deliver_ir(("comp", f % (a, b)), k))
        if op in ("+", "-"):
            f = ("i_checked_add" if op == "+" else "i_checked_sub") + " %s %s" % (mn, mx) + " %s %s"
            return two(lambda a, b: self.deliver_ir(("comp", f % (a, b)), k))
        raise self.err("`%s` on %s" % (op, show_ty(t)), ln)

    def tr_bin(self, e, env, k):
        op, ln = e.op, e.line
        if op in ("&&", "||"):
            self.expect_type(e.a, env, T_BOOL, "`%s`" % op)
            self.expect_type(e.b, env, T_BOOL, "`%s`" % op)

            def on_a(a):
                irb = self.sub_ir(k, lambda: self.tr(e.b, env, RET))
                if irb[0] == "ret":
                    ir = ("ret", "%s %s %s" % ("orb" if op == "||" else "andb", P(a), P(irb[1])))
                elif op == "||":
                    ir = ("if", a, ("ret", "true"), irb)
                else:
                    ir = ("if", a, irb, ("ret", "false"))
                return self.deliver_ir(ir, k)
            return self.tr(e.a, env, Kont("anon", f=on_a))
        ta = self.typeof(e.a, env)
        tb = self.typeof(e.b, env)
        if op in ("<<", ">>"):
            w = self.width(ta, ln, "the left operand of `%s`" % op)
            if e.b.kind != "lit":
                raise self.err("`%s` by a non-constant amount" % op, ln)
            if e.b.v >= w:
                return ("fail", "shift by %d >= %d bits" % (e.b.v, w))
            if op == "<<":
                return self.tr(e.a, env, Kont("anon", f=lambda a: self.deliver_pure(
                    "shl %d %s %d" % (w, P(a), e.b.v), k)))
            return self.tr(e.a, env, Kont("anon", f=lambda a: self.deliver_pure(
                "N.shiftr %s %d" % (P(a), e.b.v), k)))
        t = unify(ta, tb, ln, "`%s`" % op)
        if t[0] == "sint":
            return self.tr_bin_sint(e, env, k, t)
        if op in ("==", "!=", "<", ">", "<=", ">="):
            if t == T_BOOL:
                if op not in ("==", "!="):
                    raise self.err("ordering comparison of booleans", ln)
                fmt = {"==": "Bool.eqb %s %s", "!=": "negb (Bool.eqb %s %s)"}[op]
            elif is_int(t):
                fmt = {"==": "%s =? %s", "!=": "negb (%s =? %s)", "<": "%s <? %s", "<=": "%s <=? %s",
                       ">": "%s <? %s", ">=": "%s <=? %s"}[op]
            else:
                raise self.err("comparison of %s" % show_ty(t), ln)
            swap = op in (">", ">=")
            return self.tr_list([e.a, e.b], env, lambda ts: self.deliver_pure(
                fmt % ((P(ts[1]), P(ts[0])) if swap else (P(ts[0]), P(ts[1]))), k))
        if t == T_BOOL:
            if op not in ("&", "|", "^"):
                raise self.err("`%s` on booleans" % op, ln)
            f = {"&": "andb", "|": "orb", "^": "xorb"}[op]
            return self.tr_list([e.a, e.b], env, lambda ts: self.deliver_pure(
                "%s %s %s" % (f, P(ts[0]), P(ts[1])), k))
        if not is_int(t):
            raise self.err("`%s` on %s" % (op, show_ty(t)), ln)
        if op in ("&", "|", "^"):
            f = {"&": "N.land", "|": "N.lor", "^": "N.lxor"}[op]
            return self.tr_list([e.a, e.b], env, lambda ts: self.deliver_pure(
                "%s %s %s" % (f, P(ts[0]), P(ts[1])), k))
        # + - * / % : panic on overflow / division by zero (debug build)
        w = self.width(t, ln, "the operands of `%s`" % op)
        mx = MAXNAME[w]
        if op in ("/", "%") and e.b.kind == "lit" and e.b.v != 0:
            fmt = "%s / %s" if op == "/" else "%s mod %s"
            return self.tr_list([e.a, e.b], env, lambda ts: self.deliver_pure(fmt % (P(ts[0]), P(ts[1])), k))
        fmt = {"+": "checked_add " + mx + " %s %s", "-": "checked_sub %s %s",
               "*": "checked_mul " + mx + " %s %s", "/": "checked_div %s %s", "%": "checked_rem %s %s"}[op]
        return self.tr_list([e.a, e.b], env, lambda ts: self.deliver_ir(
            ("comp", fmt % (P(ts[0]), P(ts[1]))), k))

    def tr_call(self, e, env, k):
        p, ln = e.path, e.line
        if p == ["Some"]:
            if len(e.args) != 1:
                raise self.err("Some(..) with %d arguments" % len(e.args), ln)
            return self.tr(e.args[0], env, Kont("anon", f=lambda x: self.deliver_pure("Some %s" % P(x), k)))
        if p == ["Ok"] and len(e.args) == 1:
            return self.tr(e.args[0], env, Kont("anon", f=lambda x: self.deliver_pure("ROk %s" % P(x), k)))
        if p == ["Err"] and len(e.args) == 1:
            if not self.is_error_value(e.args[0]):
                raise self.err("Err(..) of something that is not a plain error value (string, eyre!)", ln)
            return self.deliver_pure("RErr", k)
        if len(p) == 2 and p[0] in self.group.get("newtypes", {}) and p[1] == "new" and len(e.args) == 1:
            nt = self.group["newtypes"][p[0]]
            if nt.get("max") is not None:
                raise self.err("`%s::new` of a range-restricted newtype" % p[0], ln)
            unify(self.typeof(e.args[0], env), builtin_type(nt["repr"], ln), ln, "%s::new" % p[0])
            if e.args[0].kind == "lit" and builtin_type(nt["repr"], ln)[0] == "sint":
                return self.deliver_pure("%d%%Z" % e.args[0].v, k)
            return self.tr(e.args[0], env, k)
        if len(p) == 2 and p[0] in INT_BITS and p[1] == "from":
            if len(e.args) != 1:
                raise self.err("%s::from with %d arguments" % (p[0], len(e.args)), ln)
            src = self.typeof(e.args[0], env)
            if not is_int(src) or (src[0] == "int" and src[1] > INT_BITS[p[0]]):
                raise self.err("%s::from(%s) is not a widening conversion" % (p[0], show_ty(src)), ln)
            return self.tr(e.args[0], env, k)
        if len(p) == 1 and p[0] in self.kernels:
            callee = self.kernels[p[0]]
            if len(callee["params"]) != len(e.args):
                raise self.err("call of `%s` with %d arguments" % (p[0], len(e.args)), ln)
            for a, (pn, pt) in zip(e.args, callee["params"]):
                unify(self.typeof(a, env), pt, a.line, "argument `%s` of `%s`" % (pn, p[0]))
            self.calls.add(p[0])
            return self.tr_list(e.args, env, lambda ts: self.deliver_ir(
                ("comp", " ".join([callee["qual"]] + [P(x) for x in ts])), k))
        raise self.err("call of `%s`, which is not a translated kernel (add it to the table)" % "::".join(p), ln)

    def tr_method(self, e, env, k):
        m, ln = e.name, e.line
        rt = self.typeof(e.recv, env)
        self.method_type(e, rt, env)          # rejects unknown methods

        def nargs(n):
            if len(e.args) != n:
                raise self.err("`.%s()` with %d arguments" % (m, len(e.args)), ln)
        if is_int(rt):
            if rt == T_LIT and e.args:
                rt = unify(rt, self.typeof(e.args[0], env), ln, "." + m)
            w = self.width(rt, ln, "the receiver of `.%s()`" % m)
            mx = MAXNAME[w]
            for a in e.args:
                unify(self.typeof(a, env), rt, a.line, "argument of `.%s()`" % m)
            if m in ("next_power_of_two", "is_power_of_two"):
                nargs(0)
                if m == "is_power_of_two":
                    return self.tr(e.recv, env, Kont("anon", f=lambda r: self.deliver_pure(
                        "is_power_of_two %s" % P(r), k)))
                return self.tr(e.recv, env, Kont("anon", f=lambda r: self.deliver_ir(
                    ("comp", "next_power_of_two %s %s" % (mx, P(r))), k)))
            if m == "try_into":
                nargs(0)
                if not (k.kind == "ret" and not self.nontail and self.ret_ty[0] == "res"):
                    raise self.err("`.try_into()` whose target type is not fixed by the function's "
                                   "return type", ln)
                tgt = self.ret_ty[1]
                if tgt[0] == "nt" and self.group["newtypes"][tgt[1]].get("max") is not None:
                    lim = self.group["newtypes"][tgt[1]]["max"]
                elif tgt[0] == "int":
                    lim = MAXNAME[tgt[1]]
                else:
                    raise self.err("`.try_into()` into %s" % show_ty(tgt), ln)
                return self.tr(e.recv, env, Kont("anon", f=lambda r: self.deliver_pure(
                    "try_into_ranged %s %s" % (lim, P(r)), k)))
            nargs(1)
            if m == "saturating_div":
                if e.args[0].kind == "lit" and e.args[0].v != 0:
                    return self.tr_list([e.recv, e.args[0]], env, lambda ts: self.deliver_pure(
                        "%s / %s" % (P(ts[0]), P(ts[1])), k))
                return self.tr_list([e.recv, e.args[0]], env, lambda ts: self.deliver_ir(
                    ("comp", "checked_div %s %s" % (P(ts[0]), P(ts[1]))), k))
            fmt = {
                "checked_add": "checked_add " + mx + " %s %s",
                "checked_sub": "checked_sub %s %s",
                "checked_mul": "checked_mul " + mx + " %s %s",
                "checked_div": "checked_div %s %s",
                "checked_rem": "checked_rem %s %s",
                "saturating_add": "saturating_add " + mx + " %s %s",
                "saturating_sub": "saturating_sub %s %s",
                "saturating_mul": "saturating_mul " + mx + " %s %s",
                "wrapping_add": "wrapping_add %d" % w + " %s %s",
                "wrapping_sub": "wrapping_sub %d" % w + " %s %s",
                "wrapping_mul": "wrapping_mul %d" % w + " %s %s",
                "min": "N.min %s %s", "max": "N.max %s %s", "abs_diff": "abs_diff %s %s",
            }[m]
            return self.tr_list([e.recv, e.args[0]], env, lambda ts: self.deliver_pure(
                fmt % (P(ts[0]), P(ts[1])), k))
        if rt[0] == "sint" or (rt[0] == "nt" and m in self.group["newtypes"][rt[1]].get("methods", {})):
            nargs(1)
            if rt[0] == "nt":
                spec = self.group["newtypes"][rt[1]]
                rep_t = builtin_type(spec["repr"], ln)
                want = rt if spec["methods"][m] == "Self" else rep_t
                if rep_t[0] != "sint":
                    raise self.err("forwarded method `.%s()` of a newtype over %s" % (m, show_ty(rep_t)), ln)
            else:
                rep_t, want = rt, rt
            unify(self.typeof(e.args[0], env), want, ln, "argument of `.%s()`" % m)
            mn, mx = self.sint_bounds(rep_t, ln)
            fmt = {"checked_add": "i_checked_add %s %s" % (mn, mx) + " %s %s",
                   "checked_sub": "i_checked_sub %s %s" % (mn, mx) + " %s %s",
                   "checked_div": "i_checked_div %s" % mn + " %s %s"}[m]
            return self.tr_s(e.recv, env, Kont("anon", f=lambda a: self.tr_s(e.args[0], env, Kont(
                "anon", f=lambda b: self.deliver_pure(fmt % (P(a), P(b)), k)))))
        if rt[0] == "nt":
            nt = self.group["newtypes"][rt[1]]
            nargs(0)
            return self.tr(e.recv, env, k)
        if rt[0] == "res":
            if m in ("unwrap", "expect"):
                return self.tr(e.recv, env, Kont("anon", f=lambda o: self.deliver_ir(
                    ("comp", "unwrap_res %s" % P(o)), k)))
            if m in ("is_ok", "is_err"):
                nargs(0)
                fmt = "is_ok %s" if m == "is_ok" else "negb (is_ok %s)"
                return self.tr(e.recv, env, Kont("anon", f=lambda o: self.deliver_pure(fmt % P(o), k)))
            # map_err / wrap_err / context: only the error value changes, which is not modelled
            nargs(1)
            if not self.is_error_value(e.args[0]):
                raise self.err("`.%s()` with an argument that is not a plain error value" % m, ln)
            return self.tr(e.recv, env, k)
        if m in ("ok_or", "ok_or_else", "ok_or_eyre"):
            nargs(1)
            if not self.is_error_value(e.args[0]):
                raise self.err("`.%s()` with an argument that is not a plain error value" % m, ln)
            if m == "ok_or_else" and (e.args[0].kind != "closure" or e.args[0].params):
                raise self.err("`.ok_or_else()` needs a closure without arguments", ln)
            return self.tr(e.recv, env, Kont("anon", f=lambda o: self.deliver_pure("ok_or %s" % P(o), k)))
        # Option receiver
        if m in ("unwrap", "expect"):
            if m == "unwrap":
                nargs(0)
            return self.tr(e.recv, env, Kont("anon", f=lambda o: self.deliver_ir(("comp", o), k)))
        if m in ("is_some", "is_none"):
            nargs(0)
            fmt = "is_some %s" if m == "is_some" else "negb (is_some %s)"
            return self.tr(e.recv, env, Kont("anon", f=lambda o: self.deliver_pure(fmt % P(o), k)))
        if m == "unwrap_or":
            nargs(1)
            return self.tr_list([e.recv, e.args[0]], env, lambda ts: self.deliver_pure(
                "unwrap_or %s %s" % (P(ts[0]), P(ts[1])), k))
        if m == "is_some_and":
            nargs(1)
            c = e.args[0]
            if c.kind != "closure" or len(c.params) != 1:
                raise self.err("`.is_some_and()` needs a one-argument closure literal", ln)
            pname, pty = c.params[0]
            env2 = dict(env)
            env2[pname] = pty or rt[1]
            self.expect_type(c.body, env2, T_BOOL, "the closure of `.is_some_and()`")

            def on_o(o):
                def body():
                    self.in_closure += 1
                    try:
                        return self.tr(c.body, env2, RET)
                    finally:
                        self.in_closure -= 1
                ir = self.smart_matchopt(o, self.var(pname), self.sub_ir(k, body), ("ret", "false"))
                return self.deliver_ir(ir, k)
            return self.tr(e.recv, env, Kont("anon", f=on_o))
        raise self.err("method `.%s()`" % m, ln)

    def tr_macro(self, e, env, k):
        m, ln = e.name, e.line
        if m in ("assert", "debug_assert"):
            if not e.args:
                raise self.err("`%s!` without a condition" % m, ln)
            self.expect_type(e.args[0], env, T_BOOL, "`%s!`" % m)
            return self.tr(e.args[0], env, Kont("anon", f=lambda c: (
                "bind", "_", ("comp", "assert %s" % P(c)), self.deliver_pure("tt", k))))
        if m in ("assert_eq", "assert_ne", "debug_assert_eq", "debug_assert_ne"):
            if len(e.args) < 2:
                raise self.err("`%s!` needs two operands" % m, ln)
            cmp_ = Node("bin", ln, op="==" if m.endswith("eq") else "!=", a=e.args[0], b=e.args[1])
            return self.tr(cmp_, env, Kont("anon", f=lambda c: (
                "bind", "_", ("comp", "assert %s" % P(c)), self.deliver_pure("tt", k))))
        if m in PANIC_MACROS:
            return ("fail", m + "!")
        if m == "ensure":
            # ensure!(cond, msg..): `if !cond { return Err(..) }`
            if not e.args:
                raise self.err("`ensure!` without a condition", ln)
            if self.ret_ty[0] != "res":
                raise self.err("`ensure!` in a function that does not return Result", ln)
            self.no_exit_here("`ensure!`", ln)
            self.expect_type(e.args[0], env, T_BOOL, "`ensure!`")
            return self.tr(e.args[0], env, Kont("anon", f=lambda c: (
                "if", c, self.deliver_pure("tt", k), ("ret", "RErr"))))
        if m == "bail":
            if self.ret_ty[0] != "res":
                raise self.err("`bail!` in a function that does not return Result", ln)
            self.no_exit_here("`bail!`", ln)
            return ("ret", "RErr")
        raise self.err("macro `%s!`" % m, ln)

    def tr_match(self, e, env, k):
        ln = e.line
        st = self.typeof(e.scrut, env)
        if st[0] != "enum":
            raise self.err("`match` on %s (only fieldless enums named in the table)" % show_ty(st), ln)
        variants = self.group["enum_variants"][st[1]]
        for (pats, g, b) in e.arms:
            for pt in pats:
                if pt[0] == "variant" and (pt[1] not in (st[1], "Self") or pt[2] not in variants):
                    raise self.err("pattern `%s::%s` is not a variant of %s" % (pt[1], pt[2], st[1]), ln)
            if g is not None:
                self.expect_type(g, env, T_BOOL, "match guard")
        self.typeof(e, env)

        def chain(v, i):
            """the arms from i on, for the scrutinee value v: first arm whose pattern covers v
            and whose guard holds"""
            while i < len(e.arms):
                pats, g, b = e.arms[i]
                if any(pt[0] == "wild" or pt[2] == v for pt in pats):
                    break
                i += 1
            else:
                raise self.err("`match` does not cover %s::%s" % (st[1], v), ln)
            pats, g, b = e.arms[i]
            if g is None:
                return self.tr(b, env, RET)
            return self.tr(g, env, Kont("anon", f=lambda c: self.smart_if(
                c, self.tr(b, env, RET), chain(v, i + 1))))

        def on_s(x):
            ir = self.sub_ir(k, lambda: self.smart_matchenum(x, [(v, chain(v, 0)) for v in variants]))
            return self.deliver_ir(ir, k)
        return self.tr(e.scrut, env, Kont("anon", f=on_s))

    # ---- blocks
    def diverges(self, b):
        """does control never reach the end of this block"""
        last = b.tail
        if last is None and b.stmts:
            s = b.stmts[-1]
            if s.kind == "expr":
                last = s.e
        if last is None:
            return False
        if last.kind in ("return", "break", "continue"):
            return True
        if last.kind == "macro" and (last.name in PANIC_MACROS or last.name == "bail"):
            return True
        if last.kind == "if" and last.el is not None:
            return self.diverges(last.th) and self.diverges(last.el)
        if last.kind == "block":
            return self.diverges(last)
        return False

    def tr_block(self, b, env, k, straight=False, loop_body=False):
        """straight: assignments in this block are visible to everything that runs after them
        (function body, loop body, or a block that never falls through)"""
        straight = straight or loop_body or self.diverges(b)
        return self.tr_stmts(b, 0, dict(env), k, straight, loop_body)

    def pat_text(self, pat):
        if pat[0] == "id":
            return "_" if pat[1] == "_" else self.var(pat[1])
        return "'(" + ", ".join(self.pat_text(p).lstrip("'") for p in pat[1]) + ")"

    def tr_stmts(self, b, i, env, k, straight, loop_body):
        if i == len(b.stmts):
            if b.tail is not None:
                return self.tr(b.tail, env, k)
            if loop_body:
                return self.loop_again()
            return self.deliver_pure("tt", k)
        s = b.stmts[i]
        ln = s.line

        def rest_with(env2):
            return lambda: self.tr_stmts(b, i + 1, env2, k, straight, loop_body)

        if s.kind == "let":
            t = self.typeof(s.e, env)
            if s.ty is not None:
                t = unify(t, s.ty, ln, "`let` with a type annotation")
            env2 = dict(env)
            self.bind_pattern_types(s.pat, t, env2, ln)
            if self.loop is not None:
                for n in self.pat_names(s.pat):
                    if n in self.loop[1]:
                        raise self.err("`let %s` shadows a variable that is carried around the loop" % n, ln)
            return self.tr(s.e, env, Kont("bind", pat=self.pat_text(s.pat), rest=rest_with(env2)))
        if s.kind == "assign":
            if s.name not in env:
                raise self.err("assignment to unknown variable `%s`" % s.name, ln)
            if not straight:
                raise self.err("assignment to `%s` inside a nested block that falls through "
                               "(would need a join)" % s.name, ln)
            unify(self.typeof(s.e, env), env[s.name], ln, "assignment to `%s`" % s.name)
            return self.tr(s.e, env, Kont("bind", pat=self.var(s.name), rest=rest_with(env)))
        e = s.e
        if e.kind == "if" and (e.el is None or self.diverges(e.th)):
            # `if c { ...; break/return }` followed by the rest of the block
            if not self.diverges(e.th):
                raise self.err("`if` without `else` whose block does not end in break/return/continue", ln)
            if e.el is not None and not self.diverges(e.el):
                if e.el.stmts and any(x.kind == "let" for x in e.el.stmts):
                    raise self.err("`else` block with `let` that falls through into the following statements", ln)
            self.expect_type(e.c, env, T_BOOL, "the condition of `if`")

            def on_c(c):
                th = self.tr_block(e.th, env, RET)
                if e.el is None:
                    return ("if", c, th, rest_with(env)())
                if self.diverges(e.el):
                    return ("if", c, th, self.tr_block(e.el, env, RET))
                if any(x.kind == "assign" for x in e.el.stmts):
                    raise self.err("assignment in an `else` block that falls through", ln)
                el = self.tr_block(e.el, env, Kont("bind", pat="_", rest=rest_with(env)))
                return ("if", c, th, el)
            return self.tr(e.c, env, Kont("anon", f=on_c))
        if e.kind in ("return", "break", "continue") or (e.kind == "macro" and (e.name in PANIC_MACROS
                                                                                 or e.name == "bail")):
            return self.tr(e, env, k)            # what follows is unreachable
        if e.kind == "loop":
            raise self.err("`loop` that is not the last expression of the function", ln)
        return self.tr(e, env, Kont("bind", pat="_", rest=rest_with(env)))

    def pat_names(self, pat):
        if pat[0] == "id":
            return [] if pat[1] == "_" else [pat[1]]
        out = []
        for p in pat[1]:
            out += self.pat_names(p)
        return out

    # ---- loops
    def loop_again(self):
        name, carried, fuel = self.loop
        return ("comp", " ".join([name, fuel + "'"] + [self.var(v) for v in carried]))

    def tr_loop(self, e, env, k):
        ln = e.line
        if k.kind != "ret" or self.nontail:
            raise self.err("`loop` whose value is not the function's result", ln)
        if self.loop is not None:
            raise self.err("nested `loop`", ln)
        if self.in_closure:
            raise self.err("`loop` inside a closure", ln)
        used = names_used(e.body)
        carried = [v for v in env if v in used]
        fuel = "fuel"
        while fuel in self.idents:
            fuel += "_"
        name = self.entry["coq"] + "_loop"
        self.loop = (name, carried, fuel)
        try:
            body = self.tr_block(e.body, env, RET, loop_body=True)
        finally:
            self.loop = None
        binders = " ".join("(%s : %s)" % (self.var(v), coq_ty(env[v], ln)) for v in carried)
        txt = "Fixpoint %s (%s : nat) %s : option %s :=\n" % (name, fuel, binders, P(coq_ty(self.ret_ty, ln)))
        txt += "  match %s with\n  | O => None\n  | S %s' =>\n" % (fuel, fuel)
        txt += pp(body, 6) + "\n  end.\n"
        self.aux.append(txt)
        return ("comp", " ".join([name, str(self.entry["fuel"])] + [self.var(v) for v in carried]))

    # ---- whole function
    def translate(self):
        f = self.fn
        env = {cn: c[0] for cn, c in self.group.get("_consts", {}).items()}
        binders = []
        mutated = []
        if f.recv is not None:
            fields = self.entry["self_fields"]
            used = names_used(f.body)
            assigned = assigned_names(f.body)
            for fld, fty in fields.items():
                v = "self_" + fld
                if v in used:
                    ft = builtin_type(fty, f.line)
                    env[v] = ft
                    binders.append("(%s : %s)" % (self.var(v), coq_ty(ft, f.line)))
                    if v in assigned:
                        mutated.append(v)
            if "self" in used:
                raise self.err("`self` used other than as `self.<field>` of a field named in the table", f.line)
            if mutated and f.recv != "mut":
                raise self.err("assignment to a field of `self` without `&mut self`", f.line)
            if mutated and has_kind(f.body, "loop"):
                raise self.err("`loop` in a method that assigns fields of `self`", f.line)
            for n in let_names(f.body) | set(pn for (pn, _, _) in f.params):
                if n in env:
                    raise self.err("local `%s` collides with the name given to a field of `self`" % n, f.line)
        for (pn, pt, pl) in f.params:
            if pn in self.entry["params"]:
                pt = builtin_type(self.entry["params"][pn], pl)
            if pt[0] == "unsupported":
                raise self.err("type of `%s`: %s" % (pn, pt[1]), pl)
            env[pn] = pt
            binders.append("(%s : %s)" % (self.var(pn), coq_ty(pt, pl)))
        ret = f.ret
        if self.entry["ret"]:
            ret = builtin_type(self.entry["ret"], f.line)
        if ret[0] == "unsupported":
            raise self.err("return type: %s" % ret[1], f.line)
        self.ret_ty = ret
        bt = self.block_type(f.body, env)
        unify(bt, ret, f.line, "the function's result")
        body = self.tr_block(f.body, env, RET, straight=True)
        rty = coq_ty(ret, f.line)
        if mutated:
            # the fields' values at the moment the function returns (assignments are only accepted
            # in straight-line code, where the Coq name is rebound, so the name IS the value)
            body = wrap_tail(body, [self.var(v) for v in mutated], self.fresh)
            rty = " * ".join([P(rty)] + [coq_ty(env[v], f.line) for v in mutated])
        self.mutated = mutated
        head = "Definition %s %s: option %s :=\n" % (
            self.entry["coq"], "".join(b + " " for b in binders), P(rty))
        return "".join(a + "\n" for a in self.aux) + head + pp(body, 2) + ".\n"


def assigned_names(node, acc=None):
    if acc is None:
        acc = set()
    if isinstance(node, Node):
        if node.kind == "assign":
            acc.add(node.name)
        for v in node.__dict__.values():
            assigned_names(v, acc)
    elif isinstance(node, (list, tuple)):
        for v in node:
            assigned_names(v, acc)
    return acc


def let_names(node, acc=None):
    if acc is None:
        acc = set()

    def pat(p):
        if p[0] == "id":
            acc.add(p[1])
        else:
            for q in p[1]:
                pat(q)
    if isinstance(node, Node):
        if node.kind == "let":
            pat(node.pat)
        for v in node.__dict__.values():
            let_names(v, acc)
    elif isinstance(node, (list, tuple)):
        for v in node:
            let_names(v, acc)
    return acc


def has_kind(node, kind):
    if isinstance(node, Node):
        return node.kind == kind or any(has_kind(v, kind) for v in node.__dict__.values())
    if isinstance(node, (list, tuple)):
        return any(has_kind(v, kind) for v in node)
    return False


def wrap_tail(ir, extra, fresh):
    """every point where the IR returns the function's value `t` returns `(t, extra...)` instead"""
    k = ir[0]
    if k == "ret":
        return ("ret", "(%s)" % ", ".join([ir[1]] + extra))
    if k == "comp":
        x = fresh()
        return ("bind", x, ir, ("ret", "(%s)" % ", ".join([x] + extra)))
    if k == "fail":
        return ir
    if k == "bind" or k == "let":
        return (k, ir[1], ir[2], wrap_tail(ir[3], extra, fresh))
    if k == "if":
        return ("if", ir[1], wrap_tail(ir[2], extra, fresh), wrap_tail(ir[3], extra, fresh))
    if k in ("matchopt", "matchres"):
        return (k, ir[1], ir[2], wrap_tail(ir[3], extra, fresh), wrap_tail(ir[4], extra, fresh))
    if k == "matchenum":
        return (k, ir[1], [(c, wrap_tail(a, extra, fresh)) for c, a in ir[2]])
    raise AssertionError(ir)


def builtin_type(name, line):
    p = Parser([Tok("id", x, line) if re.match(r"\w", x) else Tok("op", x, line)
                for x in re.findall(r"\w+|[<>(),]", name)], {})
    return p.parse_type()


# --------------------------------------------------------------------------------------------
# printing the IR

def pp(ir, ind):
    return " " * ind + pp_(ir, ind)


def pp_(ir, ind):
    """text of `ir`; continuation lines are indented by `ind`"""
    sp = " " * ind
    k = ir[0]
    if k == "ret":
        return "Some %s" % P(ir[1])
    if k == "comp":
        return ir[1]
    if k == "fail":
        return "None (* %s *)" % ir[1]
    if k == "bind":
        c = ir[2]
        pat = ir[1]
        ctxt = c[1] if c[0] == "comp" else "(" + pp_(c, ind + len(pat) + 8) + ")"
        if pat.startswith("'(") and pat.count(",") != 1:
            return "bind %s (fun %s =>\n%s%s)" % (P(ctxt) if c[0] == "comp" else ctxt, pat, sp, pp_(ir[3], ind))
        return "do %s <- %s;\n%s%s" % (pat, ctxt, sp, pp_(ir[3], ind))
    if k == "let":
        return "let %s := %s in\n%s%s" % (ir[1], ir[2], sp, pp_(ir[3], ind))
    if k == "if":
        a = ir[2]
        atxt = pp_(a, ind + 2) if a[0] in ("ret", "comp", "fail") else "(" + pp_(a, ind + 3) + ")"
        b = ir[3]
        if b[0] in ("ret", "comp", "fail", "if"):
            return "if %s then %s\n%selse %s" % (ir[1], atxt, sp, pp_(b, ind))
        return "if %s then %s\n%selse\n%s  %s" % (ir[1], atxt, sp, sp, pp_(b, ind + 2))
    if k == "matchopt":
        def arm(x):
            return " " + pp_(x, ind + 4) if x[0] in ("ret", "comp", "fail") else "\n%s    (%s)" % (sp, pp_(x, ind + 5))
        return "match %s with\n%s| None =>%s\n%s| Some %s =>%s\n%send" % (
            ir[1], sp, arm(ir[4]), sp, ir[2], arm(ir[3]), sp)
    if k == "matchres":
        def arm(x):
            return " " + pp_(x, ind + 4) if x[0] in ("ret", "comp", "fail") else "\n%s    (%s)" % (sp, pp_(x, ind + 5))
        return "match %s with\n%s| RErr =>%s\n%s| ROk %s =>%s\n%send" % (
            ir[1], sp, arm(ir[4]), sp, ir[2], arm(ir[3]), sp)
    if k == "matchenum":
        def arm(x):
            return " " + pp_(x, ind + 4) if x[0] in ("ret", "comp", "fail") else "\n%s    (%s)" % (sp, pp_(x, ind + 5))
        return "match %s with\n%s%send" % (
            ir[1], "".join("%s| %s =>%s\n" % (sp, c, arm(a)) for c, a in ir[2]), sp)
    raise AssertionError(ir)


# --------------------------------------------------------------------------------------------
# driver

def find_fn(src, name, nth, line_starts):
    """offsets of `fn <name>` outside of comments"""
    hits = []
    for m in re.finditer(r"\bfn\s+%s\b" % re.escape(name), src):
        ls = src.rfind("\n", 0, m.start()) + 1
        prefix = src[ls:m.start()]
        if "//" in prefix or '"' in prefix:
            continue
        hits.append(m.start())
    if not hits:
        raise Unsupported("function `%s` not found" % name)
    if nth is not None:
        if nth > len(hits):
            raise Unsupported("function `%s`: occurrence %d requested, %d found" % (name, nth, len(hits)))
        return hits[nth - 1]
    if len(hits) > 1:
        lines = [bisect.bisect_right(line_starts, h) for h in hits]
        raise Unsupported("function `%s` occurs %d times (lines %s); set nth= in the table" % (name, len(hits), lines))
    return hits[0]


def in_comment(src, pos):
    ls = src.rfind("\n", 0, pos) + 1
    return "//" in src[ls:pos]


def read_enum(repo, name, spec):
    """variants of the fieldless enum `name`, read from the source"""
    rel = spec["file"]
    path = os.path.join(repo, rel)
    if not os.path.isfile(path):
        raise Unsupported("enum %s: source file %s not found" % (name, rel))
    src = open(path, encoding="utf-8").read()
    hits = [m for m in re.finditer(r"\benum\s+%s\s*\{" % re.escape(name), src) if not in_comment(src, m.start())]
    if len(hits) != 1:
        raise Unsupported("enum %s: found %d definitions in %s" % (name, len(hits), rel))
    end = src.find("}", hits[0].end())
    body = src[hits[0].end():end]
    if "{" in body or "(" in body or "=" in body:
        raise Unsupported("enum %s in %s is not fieldless (or has explicit discriminants)" % (name, rel))
    body = re.sub(r"//[^\n]*", "", body)
    body = re.sub(r"#\[[^\]]*\]", "", body)
    variants = [v.strip() for v in body.split(",") if v.strip()]
    for v in variants:
        if not re.match(r"^[A-Za-z_]\w*$", v):
            raise Unsupported("enum %s in %s: cannot read variant `%s`" % (name, rel, v))
    if not variants:
        raise Unsupported("enum %s in %s has no variants" % (name, rel))
    return variants


def read_const(src, entry, line_starts):
    name = entry["fn"]
    hits = [m for m in re.finditer(r"\bconst\s+%s\s*:\s*(\w+)\s*=\s*([^;]+);" % re.escape(name), src)
            if not in_comment(src, m.start())]
    if len(hits) != 1:
        raise Unsupported("const `%s`: found %d definitions" % (name, len(hits)))
    m = hits[0]
    line = bisect.bisect_right(line_starts, m.start())
    if m.group(1) not in INT_BITS:
        raise Unsupported("const `%s` of type %s (only unsigned integers)" % (name, m.group(1)), line)
    bits = INT_BITS[m.group(1)]
    lit = re.match(r"^\s*([0-9][0-9_]*)(?:%s)?\s*$" % m.group(1), m.group(2))
    if not lit:
        raise Unsupported("const `%s` is not a plain decimal literal: %s" % (name, m.group(2).strip()), line)
    v = int(lit.group(1).replace("_", ""))
    if v >= 2 ** bits:
        raise Unsupported("const `%s` out of range" % name, line)
    return ("int", bits), v, line


def check_pins(repo, group):
    """`pins`: pieces of source the table RELIES on without translating them (e.g. the one-line
    forwarding methods of a newtype).  Each is compared token by token with the expected text."""
    for pin in group.get("pins", []):
        rel = pin["file"]
        path = os.path.join(repo, rel)
        if not os.path.isfile(path):
            raise Unsupported("pin: source file %s not found" % rel)
        src = open(path, encoding="utf-8").read()
        ls = [0] + [m.end() for m in re.finditer("\n", src)]
        if pin.get("decl"):
            # a declaration without a body (trait method): the text must occur, token by token
            rx = r"\s*".join(re.escape(t.val) for t in tokenize_text(pin["text"]))
            if not [m for m in re.finditer(rx, src) if not in_comment(src, m.start())]:
                ex = Unsupported("pinned declaration `%s` not found" % pin["text"])
                ex.where = rel
                raise ex
            continue
        pos = find_fn(src, pin["fn"], pin.get("nth"), ls)
        toks = tokenize_fn(src, pos, ls)
        got = " ".join(t.val for t in toks)
        want = " ".join(t.val for t in tokenize_text(pin["text"]))
        if got != want:
            ex = Unsupported("pinned source changed: expected `%s`, found `%s`" % (want, got), toks[0].line)
            ex.where = "%s:%d: fn %s" % (rel, toks[0].line, pin["fn"])
            raise ex


def tokenize_text(text):
    out = []
    pos = 0
    while pos < len(text):
        m = TOK_RE.match(text, pos)
        if not m:
            raise Unsupported("cannot tokenize %r" % text[pos:pos + 20])
        pos = m.end()
        kind = m.lastgroup
        if kind in ("ws", "lc"):
            continue
        if m.group("num") is not None:
            out.append(Tok("num", m.group("num"), 0, m.group("suf")))
        else:
            out.append(Tok(kind, m.group(kind), 0))
    return out


def fn_span(src, pos, line_starts):
    """[start, end) of the function item starting at pos"""
    depth = 0
    p = pos
    n = len(src)
    while p < n:
        if src.startswith("/*", p):
            q = src.find("*/", p + 2)
            p = n if q < 0 else q + 2
            continue
        m = TOK_RE.match(src, p)
        if not m:
            raise Unsupported("cannot tokenize %r" % src[p:p + 20], bisect.bisect_right(line_starts, p))
        p = m.end()
        if m.lastgroup == "op":
            v = m.group("op")
            if v == "{":
                depth += 1
            elif v == "}":
                depth -= 1
                if depth == 0:
                    return pos, p
    raise Unsupported("unbalanced braces while reading the function")


def statement_end(src, pos, limit, line_starts):
    """offset just after the `;` that terminates the statement starting at pos (a statement that
    starts with `if` ends with the `}` of its last block)"""
    depth = 0
    p = pos
    is_if = re.match(r"if\b", src[pos:pos + 3]) is not None
    while p < limit:
        if src.startswith("/*", p):
            q = src.find("*/", p + 2)
            p = limit if q < 0 else q + 2
            continue
        m = TOK_RE.match(src, p)
        if not m:
            raise Unsupported("cannot tokenize %r" % src[p:p + 20], bisect.bisect_right(line_starts, p))
        p = m.end()
        if m.lastgroup == "op":
            v = m.group("op")
            if v in "([{":
                depth += 1
            elif v in ")]}":
                depth -= 1
                if depth < 0:
                    break
                if is_if and v == "}" and depth == 0 and not re.match(r"\s*else\b", src[p:p + 200]):
                    return p
            elif v == ";" and depth == 0:
                return p
    raise Unsupported("fragment: no terminating `;` found", bisect.bisect_right(line_starts, pos))


def fragment_tokens(src, entry, line_starts):
    """tokens of the synthetic function around the fragment, with the source's line numbers"""
    fpos = find_fn(src, entry["within"], entry["nth"], line_starts)
    fstart, fend = fn_span(src, fpos, line_starts)
    pieces = []
    last = fstart
    for anchor in entry["stmts"]:
        parts = [re.escape(x) for x in anchor.split()]
        rx = r"\s*".join(parts)
        if re.match(r"\w", anchor):
            rx = r"\b" + rx
        if re.search(r"\w$", anchor):
            rx = rx + r"\b"
        hits = [m for m in re.finditer(rx, src[fstart:fend]) if not in_comment(src, fstart + m.start())]
        if len(hits) != 1:
            raise Unsupported("fragment `%s`: anchor `%s` found %d times in fn %s (must be exactly once)"
                              % (entry["coq"], anchor, len(hits), entry["within"]),
                              bisect.bisect_right(line_starts, fstart))
        a = fstart + hits[0].start()
        if a < last:
            raise Unsupported("fragment `%s`: anchor `%s` occurs before the previous one" % (entry["coq"], anchor),
                              bisect.bisect_right(line_starts, a))
        b = statement_end(src, a, fend, line_starts)
        last = b
        pieces.append((a, b))
    first_line = bisect.bisect_right(line_starts, pieces[0][0])
    head = "fn %s(%s) -> %s {" % (entry["coq"], ", ".join("%s: %s" % pt for pt in entry["fparams"]), entry["fret"])
    toks = [Tok(t.kind, t.val, first_line, t.suf) for t in tokenize_text(head)]
    for (a, b) in pieces:
        p = a
        while p < b:
            if src.startswith("/*", p):
                p = src.find("*/", p + 2) + 2
                continue
            m = TOK_RE.match(src, p)
            line = bisect.bisect_right(line_starts, p)
            p = m.end()
            kind = m.lastgroup
            if kind in ("ws", "lc"):
                continue
            if m.group("num") is not None:
                toks.append(Tok("num", m.group("num"), line, m.group("suf")))
            else:
                toks.append(Tok(kind, m.group(kind), line))
    last_line = bisect.bisect_right(line_starts, pieces[-1][1] - 1)
    toks += [Tok(t.kind, t.val, last_line, t.suf) for t in tokenize_text(entry["result"] + " }")]
    # opaque sub-expressions -> free variables
    for text, var in entry["opaque"].items():
        pat = [t.val for t in tokenize_text(text)]
        out, i, n = [], 0, 0
        while i < len(toks):
            if [t.val for t in toks[i:i + len(pat)]] == pat:
                out.append(Tok("id", var, toks[i].line))
                i += len(pat)
                n += 1
            else:
                out.append(toks[i])
                i += 1
        if n == 0:
            raise Unsupported("fragment `%s`: the expression `%s` does not occur in it" % (entry["coq"], text),
                              first_line)
        toks = out
    return toks


def toposort(names, deps):
    out, state = [], {}

    def visit(n, stack):
        if state.get(n) == 2:
            return
        if state.get(n) == 1:
            raise Unsupported("recursive call cycle: %s" % " -> ".join(stack + [n]))
        state[n] = 1
        for d in sorted(deps[n], key=names.index):
            visit(d, stack + [n])
        state[n] = 2
        out.append(n)
    for n in names:
        visit(n, [])
    return out


def translate_group(repo, group):
    """returns (text, kernel infos); raises Unsupported with .where set"""
    rel = group["file"]
    path = os.path.join(repo, rel)
    if not os.path.isfile(path):
        ex = Unsupported("source file not found under --repo %s" % repo)
        ex.where = rel
        raise ex
    src = open(path, encoding="utf-8").read()
    line_starts = [0] + [m.end() for m in re.finditer("\n", src)]
    parsed = {}
    consts = {}
    try:
        group["enum_variants"] = {n: read_enum(repo, n, sp) for n, sp in group.get("enums", {}).items()}
        check_pins(repo, group)
    except Unsupported as ex:
        if not hasattr(ex, "where"):
            ex.where = rel
        raise
    all_entries = group["kernels"]
    for entry in all_entries:
        try:
            if entry["kind"] == "const":
                consts[entry["fn"]] = read_const(src, entry, line_starts)
                continue
            if entry["kind"] == "frag":
                toks = fragment_tokens(src, entry, line_starts)
            else:
                pos = find_fn(src, entry["fn"], entry["nth"], line_starts)
                toks = tokenize_fn(src, pos, line_starts)
            parsed[entry["fn"]] = Parser(toks, group.get("types", {}), group["enum_variants"],
                                         group.get("newtypes", {}), entry.get("self_fields")).parse_fn()
        except Unsupported as ex:
            ex.where = "%s%s: %s %s" % (rel, ":%d" % ex.line if ex.line else "",
                                        "fragment" if entry["kind"] == "frag" else entry["kind"], entry["fn"])
            raise
    group["_consts"] = consts
    NT_COQ.clear()
    for n, sp in group.get("newtypes", {}).items():
        NT_COQ[n] = "Z" if sp["repr"] in SINT_BITS else "N"
    group = dict(group)
    group["kernels"] = [e for e in all_entries if e["kind"] != "const"]
    # signatures first (calls may go to functions defined later in the file)
    kernels = {}
    for entry in group["kernels"]:
        f = parsed[entry["fn"]]
        try:
            params = []
            for (pn, pt, pl) in f.params:
                if pn in entry["params"]:
                    pt = builtin_type(entry["params"][pn], pl)
                if pt[0] == "unsupported":
                    raise Unsupported("type of `%s`: %s" % (pn, pt[1]), pl)
                params.append((pn, pt))
            ret = builtin_type(entry["ret"], f.line) if entry["ret"] else f.ret
            if ret[0] == "unsupported":
                raise Unsupported("return type: %s" % ret[1], f.line)
        except Unsupported as ex:
            ex.where = "%s:%d: fn %s" % (rel, ex.line or f.line, entry["fn"])
            raise
        kernels[entry["fn"]] = {"coq": entry["coq"], "qual": entry["coq"], "params": params, "ret": ret}
    texts, deps, infos = {}, {}, []
    for entry in group["kernels"]:
        f = parsed[entry["fn"]]
        tr = FnTranslator(group, entry, f, kernels)
        try:
            texts[entry["fn"]] = tr.translate()
        except Unsupported as ex:
            ex.where = "%s:%d: fn %s" % (rel, ex.line or f.line, entry["fn"])
            raise
        except RecursionError:
            ex = Unsupported("expression nesting too deep")
            ex.where = "%s:%d: fn %s" % (rel, f.line, entry["fn"])
            raise ex
        deps[entry["fn"]] = tr.calls - {entry["fn"]}
        if entry["fn"] in tr.calls:
            ex = Unsupported("recursive function")
            ex.where = "%s:%d: fn %s" % (rel, f.line, entry["fn"])
            raise ex
        infos.append({"name": entry["fn"], "coq": "%s.%s" % (group["module"], entry["coq"]),
                      "source": "%s:%d" % (rel, f.line)})
        if entry["kind"] == "frag":
            infos[-1]["fragment_of"] = entry["within"]
    for cn, (cty, cv, cl) in consts.items():
        infos.append({"name": cn, "coq": "%s.%s" % (group["module"], cn), "source": "%s:%d" % (rel, cl)})
    names = [e["fn"] for e in group["kernels"]]
    try:
        order = toposort(names, deps)
    except Unsupported as ex:
        ex.where = rel
        raise
    first = min([parsed[n].line for n in names] + [c[2] for c in consts.values()])
    out = ["(* GENERATED by tools/rs2v.py from %s:%d -- do not edit.\n"
           "   Regenerated from the Rust source on every run; Kernels/KernelEq.v proves each of these\n"
           "   equal to the hand-written model.  None = the Rust code panics (debug build);\n"
           "   usize = %d bit. *)\n"
           "From Astria Require Import Base.KernelLib.\n" % (rel, first, USIZE_BITS)]
    for en, vs in group["enum_variants"].items():
        out.append("(* enum %s, %s *)\nInductive %s := %s.\n" % (en, group["enums"][en]["file"], en, " | ".join(vs)))
    for cn, (cty, cv, cl) in consts.items():
        out.append("(* %s:%d  const %s: %s *)\nDefinition %s : N := %d.\n" % (rel, cl, cn, show_ty(cty), cn, cv))
    kinds = {e["fn"]: e for e in group["kernels"]}
    for n in order:
        f = parsed[n]
        sig = "fn %s(%s) -> %s" % (n, ", ".join("%s: %s" % (pn, show_ty(pt)) for pn, pt in kernels[n]["params"]),
                                   show_ty(kernels[n]["ret"]))
        if kinds[n]["kind"] == "frag":
            sig = "FRAGMENT of fn %s (statements %s), read as  %s" % (
                kinds[n]["within"], "; ".join("`%s ...`" % a for a in kinds[n]["stmts"]), sig)
        elif f.recv is not None:
            sig = "method (%sself)  %s" % ({"ref": "&", "mut": "&mut ", "val": ""}[f.recv], sig)
        out.append("(* %s:%d  %s *)\n%s" % (rel, f.line, sig, texts[n]))
    return "\n".join(out), infos


def failing_file(group, where, msg):
    safe = re.sub(r"\*\)|\(\*", "", "%s: %s" % (where, msg))
    return ("(* GENERATED by tools/rs2v.py from %s -- do not edit.\n"
            "   TRANSLATION FAILED: %s\n"
            "   This file deliberately does not compile: the equations of Kernels/KernelEq.v must not\n"
            "   be checked against a stale definition. *)\n"
            "Definition rs2v_translation_failed : True := 0.\n" % (group["file"], safe))


def write_if_changed(path, text):
    try:
        if open(path, encoding="utf-8").read() == text:
            return False
    except OSError:
        pass
    tmp = path + ".tmp"
    with open(tmp, "w", encoding="utf-8") as fh:
        fh.write(text)
    os.replace(tmp, path)
    return True


def main():
    ap = argparse.ArgumentParser()
    ap.add_argument("--repo", default="/repo")
    ap.add_argument("--out", required=True)
    ap.add_argument("--only", help="comma separated module names (default: all groups)")
    ap.add_argument("--stdout", action="store_true", help="print the generated text instead of writing files")
    a = ap.parse_args()
    sys.setrecursionlimit(10000)
    res = {"ok": True, "kernels": [], "written": []}
    errors = []
    if not a.stdout:
        os.makedirs(a.out, exist_ok=True)
    for group in KERNEL_GROUPS:
        if a.only and group["module"] not in a.only.split(","):
            continue
        outp = os.path.join(a.out, group["module"] + ".v")
        try:
            text, infos = translate_group(a.repo, group)
            for i in infos:
                i["file"] = outp
            res["kernels"] += infos
        except Unsupported as ex:
            where = getattr(ex, "where", group["file"])
            errors.append("%s: %s" % (where, ex.msg))
            text = failing_file(group, where, ex.msg)
        if a.stdout:
            sys.stderr.write(text + "\n")
        elif write_if_changed(outp, text):
            res["written"].append(outp)
    if errors:
        res["ok"] = False
        res["error"] = "; ".join(errors)
    print(json.dumps(res))
    return 0 if res["ok"] else 1


if __name__ == "__main__":
    sys.exit(main())
