#!/usr/bin/env python3
"""Regenerates MANIFEST.json from the table below (kept valid at all times)."""
import json
import os

V = os.path.dirname(os.path.dirname(os.path.abspath(__file__)))
props = [json.loads(l) for l in open(os.path.join(V, "properties.jsonl"))]

LEVEL_NOTE_COMMON = ("Trusted: Coq 8.16.1 kernel (full .vo build, no native_compute), extraction via ExtrOcamlBasic only "
                     "(no Extract Constant), the OCaml line-parsing driver, the in-crate Rust harness (cargo feature verif) and "
                     "python generators. Axioms per theorem are read from Print Assumptions on every run and written to the evidence. ")

CLAIMED = json.load(open(os.path.join(V, "tools", "claims.json")))
# only properties whose check is merged and passing in /verif are listed in tools/claims.json

NOT_YET = "check under construction in this round; nothing is claimed for it yet (see DESIGN.md section 4 for the plan)"

checks, na = [], []
for p in props:
    pid = p["id"]
    if pid in CLAIMED:
        c = CLAIMED[pid]
        checks.append({
            "property_id": pid,
            "quick_cmd": "bin/check %s --tier quick" % pid,
            "thorough_cmd": "bin/check %s --tier thorough" % pid,
            "evidence_file": "/verif/evidence/%s.json" % pid,
            "replay_cmd_template": "bin/check %s --replay {path}" % pid,
            "engine": "coq-model-correspondence",
            "level_claimed": {"category": "proof", "text": c["text"], "design_ref": c["design"]},
            "level_note": LEVEL_NOTE_COMMON + c["note"],
            "technique": c["technique"],
        })
    else:
        na.append({"property_id": pid, "reason": NOT_YET})

hooks_commits = os.popen("git -C /repo log --format=%H --grep='^verif hook' ").read().split()
m = {
    "version": 1,
    "setup_cmd": "bin/setup",
    "hooks": {
        "guard": "cargo feature `verif` (per hooked crate), harness modules are #[cfg(all(test, feature = \"verif\"))]",
        "enable": "cargo test --offline --lib --no-run -p <hooked crates> --features <crate>/verif,... (harness/common.py:cargo_build)",
        "baseline_off_cmd": "cd /repo && cargo nextest run --workspace --no-fail-fast --tool-config-file pb:/w/lib/nextest.toml --profile pb --test-threads 8 --offline",
        "source_commits": hooks_commits,
        "add_only": True,
    },
    "engines": [{
        "name": "coq-model-correspondence", "path": "/verif/bin/check",
        "serves_properties": [c["property_id"] for c in checks],
        "kind_free_text": "Coq 8.16 theorems about hand-written Gallina models (+ kernels regenerated from Rust source), extracted to OCaml and run against the real code through in-crate harnesses; property monitors on the implementation trace",
    }],
    "checks": checks,
    "not_applicable": na,
    "notes": "See DESIGN.md (section 8 = build record: findings, seeded changes and which check catches which, trusted base). known_findings.json lists recorded findings (known) and repaired defects (fixed: 9 fix: commits in /repo). Baseline with the guard off was re-run after all fix commits with the command in hooks.baseline_off_cmd on a quiet machine: 797 passed, the 4 failures are tests BASELINE.json lists as flaky/always_fail. Under plain single-process `cargo test` three sequencer tests (*_failed_ibc_relay_included_in_block) are order-dependent on the pinned tree already (global eyre hook); they pass under nextest and alone.",
}
json.dump(m, open(os.path.join(V, "MANIFEST.json"), "w"), indent=1)
print("claimed:", [c["property_id"] for c in checks])
