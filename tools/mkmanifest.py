#!/usr/bin/env python3
"""Regenerates MANIFEST.json from the table below (kept valid at all times)."""
import json
import os

V = os.path.dirname(os.path.dirname(os.path.abspath(__file__)))
props = [json.loads(l) for l in open(os.path.join(V, "properties.jsonl"))]

LEVEL_NOTE_COMMON = ("Trusted: Coq 8.16.1 kernel (full .vo build, no native_compute), extraction via ExtrOcamlBasic only "
                     "(no Extract Constant), the OCaml line-parsing driver, the in-crate Rust harness (cargo feature verif) and "
                     "python generators. Axioms per theorem are read from Print Assumptions on every run and written to the evidence. ")

CLAIMED = {
    "C16": dict(
        technique="Coq proof (invariant + FIFO refinement by induction over op lists) of a hand-written Gallina model; model tied to the code by differential correspondence on the real BundleFactory via the extracted model",
        text="Theorems over all op sequences and sizes (exactly-once FIFO refinement, size bound, exact refusal rule, capacity bound) about a Gallina model of BundleFactory; the model is run (extracted) against the real BundleFactory on seeded push/pop scripts with real prost-encoded actions and the theorem conclusions are also monitored directly on the implementation's outputs.",
        note="Modelled, not verified: prost encoded_len (an input of the model, read from the real action); the executor select! loop that calls these three operations. Hypothesis 2*max <= usize::MAX.",
        design="4/C16"),
}

CLAIMED["C08"] = dict(
    technique="Coq proofs (soundness by induction over the audit path modulo an explicit hash collision; totality by a trailing-ones measure on the 64-bit index arithmetic; RFC 6962 root/path equality by a checked sweep lifted through a hash-homomorphism lemma) of a Gallina model of astria-merkle; tied to the crate by differential correspondence with real SHA-256",
    text="Theorems for all proofs/leaves/roots: verification accepts only the leaf, path elements and root it was built for (else an explicit SHA-256 collision), and verifying any decodable (path,index,size) triple never panics; root = RFC 6962 MTH and constructed proof = RFC audit path (bound stated in the theorem). The model (64-bit index arithmetic with explicit panics) is extracted and run against the real crate on exhaustive small trees, random trees up to 2^16 leaves and structured proof mutations; an independent RFC 6962 recursion monitors the implementation directly.",
    note="Modelled, not verified: SHA-256 (abstract nodeH; the driver instantiates it with a SHA-256 that is cross-checked against every digest the crate prints), leaf hashing and 32-byte chunking of the audit path.",
    design="4/C08")

CLAIMED["C09"] = dict(
    technique="Coq proofs (exact 2/3 threshold arithmetic; tally invariant with duplicate detection by induction over the signature list; metadata acceptance; reconstruction bound) of a Gallina model of conductor's firm-block verification, with the threshold kernel regenerated from the Rust source on every run; tied to the code by differential correspondence through real ed25519 commits, a mock CometBFT RPC and real Celestia blob encoding",
    text="Theorems for all validator sets, power distributions and signature lists: a commit is accepted only if distinct validators with valid signatures hold strictly more than 2/3 of the total power (threshold function regenerated from block_verifier.rs and proved equal to the model's); metadata is kept only with the commit's block hash and chain id; rollup data is attached only to a verified header with the same hash whose Merkle audit succeeds. The extracted model runs against ensure_commit_has_quorum and the real decode -> verify_metadata -> reconstruct pipeline on generated commits (boundary powers, duplicated/forged/empty/nil/unknown signatures) and single tamperings of blobs; the acceptance condition is also monitored directly on the implementation's output.",
    note="Modelled, not verified: ed25519 (Valid/Invalid/Missing per entry), protobuf/brotli well-formedness and the Merkle audit verdict of blob entries (inputs of the pipeline model; the audit itself is C08), RPC transport/rate limit/moka cache. Three genuine defects of the pinned tree were found and fixed (known_findings.json F2-F4).",
    design="4/C09")

NOT_YET = "check under construction in this round; nothing is claimed for it yet (see DESIGN.md section 4 for the plan)"

checks, na = [], []
for p in props:
    pid = p["id"]
    if pid in CLAIMED:
        c = CLAIMED[pid]
        checks.append({
            "property_id": pid,
            "quick_cmd": "bin/check %s --tier quick" % pid,
            "thorough_cmd": "bin/check %s --tier thorough" % pid,
            "evidence_file": "/verif/evidence/%s.json" % pid,
            "replay_cmd_template": "bin/check %s --replay {path}" % pid,
            "engine": "coq-model-correspondence",
            "level_claimed": {"category": "proof", "text": c["text"], "design_ref": c["design"]},
            "level_note": LEVEL_NOTE_COMMON + c["note"],
            "technique": c["technique"],
        })
    else:
        na.append({"property_id": pid, "reason": NOT_YET})

hooks_commits = os.popen("git -C /repo log --format=%H --grep='^verif hook' ").read().split()
m = {
    "version": 1,
    "setup_cmd": "bin/setup",
    "hooks": {
        "guard": "cargo feature `verif` (per hooked crate), harness modules are #[cfg(all(test, feature = \"verif\"))]",
        "enable": "cargo test --offline --lib --no-run -p <hooked crates> --features <crate>/verif,... (harness/common.py:cargo_build)",
        "baseline_off_cmd": "cd /repo && cargo nextest run --workspace --no-fail-fast --offline || cargo test --workspace --no-fail-fast --offline",
        "source_commits": hooks_commits,
        "add_only": True,
    },
    "engines": [{
        "name": "coq-model-correspondence", "path": "/verif/bin/check",
        "serves_properties": [c["property_id"] for c in checks],
        "kind_free_text": "Coq 8.16 theorems about hand-written Gallina models (+ kernels regenerated from Rust source), extracted to OCaml and run against the real code through in-crate harnesses; property monitors on the implementation trace",
    }],
    "checks": checks,
    "not_applicable": na,
    "notes": "See DESIGN.md. known_findings.json lists recorded findings and fixes.",
}
json.dump(m, open(os.path.join(V, "MANIFEST.json"), "w"), indent=1)
print("claimed:", [c["property_id"] for c in checks])
