#!/usr/bin/env python3
"""merge_owner.py <name>: copy an owner agent's new files from /tmp/agents/own_<name>/verif into /verif and merge the
registration lines of the shared files (Extract.v, driver.ml, known_findings.json, mkmanifest CLAIMED)."""
import json, os, re, shutil, subprocess, sys
name = sys.argv[1]
src = "/tmp/agents/own_%s/verif" % name
dst = "/verif"
base_files = set(subprocess.check_output(["git", "ls-files"], cwd=dst).decode().split())
new = []
for root, _, files in os.walk(src):
    if "/extraction/build" in root or "/.cache" in root or "/evidence" in root or "/__pycache__" in root:
        continue
    for f in files:
        if not f.endswith((".v", ".ml", ".py", ".json", ".md", ".sh", ".notbuilt")):
            continue
        rel = os.path.relpath(os.path.join(root, f), src)
        if rel in base_files or rel.startswith(("coq/Makefile", "coq/_CoqProject")):
            continue
        os.makedirs(os.path.dirname(os.path.join(dst, rel)), exist_ok=True)
        shutil.copy(os.path.join(src, rel), os.path.join(dst, rel))
        new.append(rel)
print("copied", len(new), "files")
# Extract.v: union of imported modules and extracted roots
def extract_parts(path):
    s = open(path).read()
    imp = re.search(r"From Astria Require Import ([^.]*(?:\.[A-Za-z][^.\s]*)*)\.\n", s)
    return s
se, de = open(src + "/coq/extraction/Extract.v").read(), open(dst + "/coq/extraction/Extract.v").read()
imp_s = re.search(r"From Astria Require Import (.*?)\.\n", se, re.S).group(1).split()
imp_d = re.search(r"From Astria Require Import (.*?)\.\n", de, re.S).group(1).split()
roots_s = re.search(r"Separate Extraction (.*?)\.\n", se, re.S).group(1).split()
roots_d = re.search(r"Separate Extraction (.*?)\.\n", de, re.S).group(1).split()
imp = imp_d + [x for x in imp_s if x not in imp_d]
roots = roots_d + [x for x in roots_s if x not in roots_d]
de = re.sub(r"From Astria Require Import (.*?)\.\n", "From Astria Require Import " + " ".join(imp) + ".\n", de, count=1, flags=re.S)
de = re.sub(r"Separate Extraction (.*?)\.\n", "Separate Extraction " + "\n  ".join([" ".join(roots[i:i+4]) for i in range(0, len(roots), 4)]) + ".\n", de, count=1, flags=re.S)
open(dst + "/coq/extraction/Extract.v", "w").write(de)
# other lines of Extract.v the owner added (e.g. extra Require)
for l in se.splitlines():
    if l.startswith(("From ", "Require ")) and l not in de and "From Astria Require Import" not in l:
        print("NOTE extra line in owner's Extract.v:", l)
# driver.ml: union of match arms
sd, dd = open(src + "/coq/extraction/driver.ml").read(), open(dst + "/coq/extraction/driver.ml").read()
arms = [l for l in sd.splitlines() if l.strip().startswith("| [| _;") and l not in dd]
if arms:
    dd = dd.replace("  | _ -> prerr_endline", "\n".join(arms) + "\n  | _ -> prerr_endline")
    open(dst + "/coq/extraction/driver.ml", "w").write(dd)
print("driver arms added:", arms)
# known findings
ks, kd = json.load(open(src + "/known_findings.json")), json.load(open(dst + "/known_findings.json"))
have = {(f["property"], f["id"]) for f in kd["findings"]}
for f in ks["findings"]:
    if (f["property"], f["id"]) not in have:
        kd["findings"].append(f); print("finding added:", f["property"], f["id"], f["status"])
json.dump(kd, open(dst + "/known_findings.json", "w"), indent=1)
# util.ml / common.py differences
for shared in ("coq/extraction/util.ml", "harness/common.py", "bin/check", "coq/theories/Base/Bounded.v", "tools/mkmanifest.py"):
    a, b = os.path.join(src, shared), os.path.join(dst, shared)
    if os.path.exists(a):
        r = subprocess.run(["diff", "-q", a, b], stdout=subprocess.PIPE)
        if r.returncode:
            print("DIFFERS:", shared)
