#!/bin/bash
# usage: goal.sh theories/X/Y.v LINE  -- show the proof state after LINE (debug helper)
f=$1; n=$2
here=$(cd "$(dirname "$0")/.." && pwd); mkdir -p $here/.cache; d=$(mktemp -d $here/.cache/goal.XXXX)
b=$(basename $f .v)
head -n $n $f > $d/$b.v
echo "Show." >> $d/$b.v
cd $here/coq && timeout 600 coqc -Q theories Astria -w none $d/$b.v 2>&1 | head -${3:-60}
rm -rf $d
