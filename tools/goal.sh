#!/bin/bash
# usage: goal.sh theories/X/Y.v LINE  -- show the proof state after LINE (debug helper)
f=$1; n=$2
d=$(mktemp -d /verif/.cache/goal.XXXX 2>/dev/null || (mkdir -p /verif/.cache && mktemp -d /verif/.cache/goal.XXXX))
b=$(basename $f .v)
head -n $n $f > $d/$b.v
echo "Show." >> $d/$b.v
cd /verif/coq && coqc -Q theories Astria -w none $d/$b.v 2>&1 | head -${3:-60}
rm -rf $d
